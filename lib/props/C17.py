"""C17 — Memory requested while reading is proportional to the input size."""
import struct

import cases as C
import files as F
import refesri
import sfv
import stages

SLACK = 64 * 1024


def polyline_record(num, offsets, npoints, pts):
    body = struct.pack("<i", 3) + struct.pack("<4d", 0, 0, 1, 1) + struct.pack("<ii", len(offsets), npoints)
    body += b"".join(struct.pack("<i", o) for o in offsets) + b"".join(struct.pack("<2d", *p) for p in pts)
    return struct.pack(">ii", num, len(body) // 2) + body


def crafted(rng, tier):
    out = []
    hdr = lambda total: refesri.encode_header(3, [0] * 8, total // 2)
    # descending part offsets, no points: consistent size, fully backed by data
    for n in ([50, 500, 2000] if tier != "thorough" else [50, 500, 2000, 8000]):
        rec = polyline_record(1, list(range(n, 0, -1)), 0, [])
        out.append(("descending part offsets x%d" % n, hdr(100 + len(rec)) + rec, None))
        rec = polyline_record(1, [0] * n, 0, [])
        out.append(("%d empty parts" % n, hdr(100 + len(rec)) + rec, None))
    # counts that are consistent with the declared record length but not backed by data
    for big in (1 << 20, 1 << 27, (1 << 28) - 1):
        body = struct.pack("<i", 3) + struct.pack("<4d", 0, 0, 1, 1) + struct.pack("<ii", 1, big) + struct.pack("<i", 0)
        words = (44 + 4 + 16 * big) // 2
        if words < (1 << 31):
            rec = struct.pack(">ii", 1, words) + body
            out.append(("unbacked points=%d" % big, hdr(100 + len(rec)) + rec, None))
        body = struct.pack("<i", 3) + struct.pack("<4d", 0, 0, 1, 1) + struct.pack("<ii", big, 0)
        words = (44 + 4 * big) // 2
        if words < (1 << 31):
            rec = struct.pack(">ii", 1, words) + body
            out.append(("unbacked parts=%d" % big, hdr(100 + len(rec)) + rec, None))
    # many parts, each declaring more than 1024 points, sizes consistent, the file cut inside the first part: whatever
    # is pre-sized must stay proportional to what was read (not: one capped buffer per declared part)
    for nparts, per in ((100, 1024), (500, 1024), (400, 5000)):
        npts = nparts * per
        body = struct.pack("<i", 3) + struct.pack("<4d", 0, 0, 1, 1) + struct.pack("<ii", nparts, npts)
        body += b"".join(struct.pack("<i", i * per) for i in range(nparts))
        words = (len(body) + 16 * npts) // 2
        body += b"".join(struct.pack("<2d", float(i), 1.0) for i in range(10))
        rec = struct.pack(">ii", 1, words) + body
        out.append(("truncated: %d parts of %d points declared, 10 points present" % (nparts, per),
                    refesri.encode_header(3, [0] * 8, 50 + 4 + words) + rec, None))
        for code, extra in ((5, 0), (13, 16 + 8 * npts), (15, 16 + 8 * npts), (31, 4 * nparts + 16 + 8 * npts)):
            b2 = struct.pack("<i", code) + body[4:44 + 4 * nparts]
            if code == 31:
                b2 += b"".join(struct.pack("<i", 0) for _ in range(nparts))
            w2 = (len(b2) + 16 * npts + extra) // 2
            b2 += b"".join(struct.pack("<2d", float(i), 1.0) for i in range(10))
            if w2 < (1 << 31):
                out.append(("truncated: type %d, %d parts of %d points declared" % (code, nparts, per),
                            refesri.encode_header(code, [0] * 8, 50 + 4 + w2) + struct.pack(">ii", 1, w2) + b2, None))
    # every multi-vertex type, with and without its optional M block: a record whose counts and declared length are
    # consistent with a huge point count (the length formula is taken from the reference encoder: linear in n), cut
    # right after the counts
    for code in [t for t in F.ALL_TYPES if t not in refesri.POINT]:
        for with_m in ([True, False] if code in refesri.HAS_M else [False]):
            def rec_n(n):
                r = {"code": code, "box": [0] * 4, "pts": [[0, 0]] * n}
                if code not in refesri.MULTIPOINT:
                    r["offsets"] = [0]
                    if code == 31:
                        r["kinds"] = [0]
                if code in refesri.HAS_Z:
                    r["zrange"], r["zs"] = [0, 0], [0] * n
                if code in refesri.HAS_M:
                    r["mrange"], r["ms"] = ([0, 0], [0] * n) if with_m else (None, None)
                return refesri.encode_record(1, r)
            b1, b2 = rec_n(1), rec_n(2)
            per = len(b2) - len(b1)
            fixed = len(b1) - per - 8                     # content bytes that do not depend on n
            npts_off = 8 + 4 + 32 + (0 if code in refesri.MULTIPOINT else 4)
            for big in (1 << 20, (1 << 24) + 3):
                words = (fixed + per * big) // 2
                if words >= (1 << 31):
                    continue
                body = bytearray(b1[: npts_off + 4 + (0 if code in refesri.MULTIPOINT else 4) + (4 if code == 31 else 0)])
                body[4:8] = struct.pack(">i", words)
                body[npts_off:npts_off + 4] = struct.pack("<i", big)
                out.append(("unbacked type %d %s M, %d points" % (code, "with" if with_m else "without", big),
                            refesri.encode_header(code, [0] * 8, 50 + 4 + words) + bytes(body) + bytes(64), None))
    # multi-part records that declare millions of points but NO part (or a single part starting at the declared point
    # count): nothing backs the count, the record holds only its ranges, and every length field is consistent with that
    for code in (13, 15, 31, 3, 23, 25):
        for with_m in ([True, False] if code in refesri.HAS_M else [False]):
            for big in (1 << 22, (1 << 27) + 5):
                for parts in ([], [big]):
                    body = struct.pack("<i", code) + struct.pack("<4d", 0, 0, 1, 1) + struct.pack("<ii", len(parts), big)
                    body += b"".join(struct.pack("<i", p) for p in parts)
                    if code == 31:
                        body += struct.pack("<i", 0) * len(parts)
                    if code in refesri.HAS_Z:
                        body += struct.pack("<2d", 0, 0)
                    if code in refesri.HAS_M and with_m:
                        body += struct.pack("<2d", 0, 0)
                    # (a) every length field says what the file holds; (b) every length field follows the size formula
                    # for the declared counts (what a reader's consistency check expects), the data ends after the ranges
                    formula = (44 + 4 * len(parts) * (2 if code == 31 else 1) + 16 * big + ((16 + 8 * big) if code in refesri.HAS_Z else 0)
                               + ((16 + 8 * big) if (code in refesri.HAS_M and with_m) else 0))
                    for words in (len(body) // 2, formula // 2):
                        if words >= (1 << 31):
                            continue
                        rec = struct.pack(">ii", 1, words) + body
                        shp = refesri.encode_header(code, [0] * 8, min((1 << 31) - 1, 50 + 4 + words)) + rec
                        shx = refesri.encode_header(code, [0] * 8, 54) + struct.pack(">ii", 50, words)
                        label = "type %d, %d part(s), %d points declared, none present (%d words announced)" % (code, len(parts), big, words)
                        out.append((label, shp, None))
                        out.append((label, shp, shx))
    # honest records, fully backed and valid, made of hundreds of parts: what the reader keeps per part must be
    # proportional to the part, not to the record
    for code, nparts, per in ((3, 400, 25), (15, 300, 12), (31, 300, 10), (23, 1500, 4)):
        rec = F.gen_rec(rng, code, "finite", lens=[per] * nparts)
        m = {"type": code, "box": [0] * 8, "records": [{"num": 1, "shape": rec}]}
        out.append(("honest: type %d, %d parts of %d points" % (code, nparts, per), refesri.encode_shp(m), refesri.encode_shx(m)))
        out.append(("honest: type %d, %d parts of %d points" % (code, nparts, per), refesri.encode_shp(m), None))
    # an index that really holds n entries but announces far more
    pt = {"type": 1, "box": [0] * 8, "records": [{"num": 1, "shape": {"code": 1, "x": 0, "y": 0}}]}
    shp1 = refesri.encode_shp(pt)
    for n in (10, 1023, 1024, 1025, 3000):
        for declared in (50 + 4 * n, 50 + 4 * (1 << 22), (1 << 30) - 1, (1 << 31) - 1):
            shx = refesri.encode_header(1, [0] * 8, declared) + struct.pack(">ii", 50, 10) * n
            out.append(("index %d entries, declares %d words" % (n, declared), shp1, shx))
            # ... beside a .shp whose header announces a length to match (both headers lie and agree), or far more
            for shp_words in (declared * 4, (1 << 31) - 1):
                if shp_words < (1 << 31):
                    lying = shp1[:24] + struct.pack(">i", shp_words) + shp1[28:]
                    out.append(("index %d entries declaring %d words beside a .shp declaring %d words" % (n, declared, shp_words), lying, shx))
    for declared in (50 + 4 * (1 << 22), (1 << 31) - 1):
        out.append(("headers only: .shx declares %d words, .shp declares 2^31-1" % declared,
                    refesri.encode_header(1, [0] * 8, (1 << 31) - 1), refesri.encode_header(1, [0] * 8, declared)))
    return out


def run(rep, tier, rng):
    import C07
    stages.proof_stage(rep, "C17")
    dev = sfv.build_harness("dev")
    inputs = []
    for mi in range(26 if tier == "thorough" else 13):
        code = F.ALL_TYPES[mi % 13]
        model = F.gen_model(rng, code, nrecs=rng.randint(1, 3), null_prob=0.1, max_parts=3, max_pts=4, profile="finite")
        model.pop("trailing", None)
        muts, shp, shx = C07.mutants_of(rng, model, tier)
        inputs.append(("valid", shp, shx))
        inputs.append(("valid", shp, None))
        if tier != "thorough":
            muts = [m for m in muts if rng.random() < 0.3]
        inputs += muts
    inputs += crafted(rng, tier)
    cases = [[8, 1 if shx is not None else 0] + C.pack_bytes(shp) + (C.pack_bytes(shx) if shx is not None else [])
             for (_, shp, shx) in inputs]
    rep.cov["rule"] = ("%d inputs: valid files; every 32-bit field of valid .shp/.shx files replaced by boundary values (as C07); "
                       "counts consistent with the declared record length but not backed by data (2^20 .. 2^28 points/parts; every "
                       "multi-vertex type with and without its M block); "
                       "records fully backed by data with thousands of descending or empty part offsets; records that declare "
                       "hundreds of parts of more than 1024 points each, consistently sized, with the file cut inside the first "
                       "part; indexes that hold n "
                       "in {10, 1023, 1024, 1025, 3000} entries but announce up to 2^31-1 words; each opened (with the index "
                       "when given), iterated to the end keeping every item, then read by index, under a counting global "
                       "allocator; oracle: peak live bytes above the baseline <= 64 * input bytes + 64 KiB and no single "
                       "request above it; non-trivial = distinct input" % len(inputs))
    # a sample of the inputs also as files on disk opened by path (the reader then owns its buffered readers: whatever
    # it sizes them by must be bounded too); std's own 8 KiB buffers are inside the slack
    import os
    os.environ["SFV_TMP"] = os.path.join(sfv.CACHE, "tmp")
    os.makedirs(os.environ["SFV_TMP"], exist_ok=True)
    by_path = [(lab, shp, shx) for (lab, shp, shx) in inputs if lab.startswith(("index ", "valid", "honest", "shx:length", "shx:offset", "headers only"))]
    if tier != "thorough":
        by_path = [x for i, x in enumerate(by_path) if i % 3 == 0]
    inputs += [("by path: " + lab, shp, shx) for (lab, shp, shx) in by_path]
    cases += [[8, 3 if shx is not None else 2] + C.pack_bytes(shp) + (C.pack_bytes(shx) if shx is not None else []) for (_, shp, shx) in by_path]
    rep.cov["inputs_also_opened_by_path"] = len(by_path)
    impl = sfv.run_impl(dev, cases)
    nfail, worst = 0, (0, "")
    for (label, shp, shx), c, r in zip(inputs, cases, impl):
        rep.count_case((c, r))
        rep.dist(label.split("=")[0].split(" x")[0][:40])
        n = len(shp) + (len(shx) if shx is not None else 0)
        msg = None
        if r in ([-2], [-1], [-5]) or len(r) != 3:
            msg = "harness died or rejected the case (%s)" % label
        else:
            peak, largest, status = r
            bound = 64 * n + SLACK
            ratio = peak / max(1, n)
            if ratio > worst[0] and n > 400:
                worst = (round(ratio, 2), label)
            if status == 2:
                msg = "panic while reading (%s)" % label
            elif peak > bound or largest > bound:
                msg = ("%d bytes of input (%s) made the reader request %d bytes at peak (largest single request %d), "
                       "allowed %d" % (n, label, peak, largest, bound))
        if msg:
            nfail += 1
            if nfail == 1:
                rep.violation({"kind": "oracle", "what": msg, "case_kind": "alloc", "case": c[:4000], "label": label})
    # ---- the complete reader's bulk read: the row count announced by the .dbf header must not size anything either
    pcases = [[15, n, ann, idx] for n in (1, 5, 40) for ann in (n, 1 << 20, (1 << 31) - 1, (1 << 32) - 1) for idx in (0, 1)]
    for c, r in zip(pcases, sfv.run_impl(dev, pcases)):
        rep.count_case((c, r))
        if len(r) != 4:
            msg = "harness died or rejected the complete-reader case %r" % (c,)
        else:
            peak, largest, status, nbytes = r
            bound = 64 * nbytes + SLACK
            msg = None
            if status == 2:
                msg = "panic in Reader::read (%d pairs, .dbf header announcing %d rows)" % (c[1], c[2])
            elif peak > bound or largest > bound:
                msg = ("%d bytes of input (%d pairs, .dbf header announcing %d rows, %s index) made Reader::read request %d bytes "
                       "at peak (largest single request %d), allowed %d" % (nbytes, c[1], c[2], "with" if c[3] else "without", peak, largest, bound))
        if msg:
            nfail += 1
            if nfail == 1:
                rep.violation({"kind": "oracle", "what": msg, "case_kind": "alloc", "case": c})
    rep.cov["complete_reader_bulk_reads"] = len(pcases)
    rep.cov["worst_peak_to_input_ratio_for_inputs_above_400_bytes"] = {"ratio": worst[0], "input": worst[1]}
    rep.sample({"label": inputs[5][0], "input_bytes": len(inputs[5][1])})
    rep.cov["oracle"] = {"checked": len(cases), "failing": nfail}
    rep.level = "proof"
    rep.assumptions += ["Vec's growth policy (amortised doubling) and the allocator are runtime behaviour: measured by the "
                        "harness's counting allocator, not modelled; the theorem bounds the pre-sizing requests, which are "
                        "the only requests not driven by data actually read"]
