"""C15 — Reader results do not depend on what was called before."""
import itertools

import cases as C
import files as F
import refesri
import sfv
import stages


def alphabet(n):
    return ([("it", 0), ("it", 1), ("it", 2), ("it", -1)] + [("nth", i) for i in range(n + 1)]
            + [("seek", k) for k in range(n + 1)] + [("seek", n + 2), ("hint",), ("count",)]
            + [("skiptake", 0, 2), ("skiptake", 1, 1), ("skiptake", n, 1)])      # iterator adaptors skip(k).take(j)


def run(rep, tier, rng):
    import C04
    stages.proof_stage(rep, "C15")
    dev = sfv.build_harness("dev")
    n = 3
    L = 4 if tier == "thorough" else 3
    # two files: records of pairwise different sizes, records of equal sizes
    def mk(lens):
        recs = []
        for i, k in enumerate(lens):
            pts = [[0x3FF0000000000000 + (i << 48) + j, 0x4000000000000000 + j] for j in range(k)]
            recs.append({"num": i + 1, "shape": {"code": 8, "box": [1, 2, 3, 4], "pts": pts}})
        return {"type": 8, "box": [0] * 8, "records": recs}
    models = [mk([1, 2, 3]), mk([2, 2, 2])]
    # a third file with a null-shape record in the middle (read with the generic reader only)
    withnull = mk([2, 1, 3])
    withnull["records"][1]["shape"] = {"code": 0}
    models.append(withnull)
    # a fourth file whose middle record is of another type with a payload (a Point in a Multipoint file): the typed
    # reader answers it with a mismatch error after having read only part of the record, and must still find the next
    foreign = mk([2, 1, 3])
    foreign["records"][1]["shape"] = {"code": 1, "x": 0x3FF0000000000000, "y": 0x4000000000000000}
    models.append(foreign)
    alpha = alphabet(n)
    hists = [list(t) for k in range(1, L + 1) for t in itertools.product(alpha, repeat=k)]
    extra = 400 if tier == "thorough" else 60
    for _ in range(extra):
        hists.append([rng.choice(alpha) for _ in range(rng.randint(L + 1, L + 5))])
    if tier != "thorough":
        # all histories up to length 2, a third of length 3 (rotating with the seed), the random long ones
        hists = [h for i, h in enumerate(hists) if len(h) != 3 or i % 3 == rng.randint(0, 2)]
    cases, meta = [], []
    # a fifth file whose index lists the records in another order than they are stored (the second listed record lies
    # before the first one in the file, the third after both)
    import C14
    import struct
    models.append(mk([1, 2, 3]))
    # a sixth file whose .shp header announces a length that ends inside the second record (a header never brought up
    # to date), with a correct index: with the index, the index alone says where records are
    models.append(mk([1, 2, 3]))
    # a seventh file of a type with heights and measures (MultipointZ, 20-30 points per record), read from sources that
    # deliver a few bytes per read call
    def mkz(lens):
        recs = []
        for i, k in enumerate(lens):
            pts = [[0x3FF0000000000000 + (i << 48) + j, 0x4000000000000000 + j] for j in range(k)]
            recs.append({"num": i + 1, "shape": {"code": 18, "box": [1, 2, 3, 4], "pts": pts, "zrange": [5, 6], "zs": [0x4010000000000000 + j for j in range(k)],
                                                 "mrange": [7, 8], "ms": [0x4020000000000000 + j for j in range(k)]}})
        return {"type": 18, "box": [0] * 8, "records": recs}
    models.append(mkz([20, 30, 25]))
    for mi, m in enumerate(models):
        shp, shx = refesri.encode_shp(m), refesri.encode_shx(m)
        if mi == 4:
            shp, entries = C14.build_layout(rng, m, (1, 0, 2), [0, 0, 0, 0], lambda k: bytes(k))
            shx = refesri.encode_shx(m, entries=entries)
        if mi == 5:
            first = len(refesri.encode_record(1, m["records"][0]["shape"]))
            shp = shp[:24] + struct.pack(">i", (100 + first + 10) // 2) + shp[28:]
        items = [("ok", refesri.denote(r["shape"])) for r in m["records"]]
        for h in hists:
            # every history ends with an iteration or, every fourth one, with the bulk read (read / read_as), observed too
            ops = h + ([("readall",)] if (len(cases) % 4 == 3) else [("it", -1)])
            typed = not (len(h) % 2 or (mi == 2 and len(cases) % 3)) or (mi == 3 and len(cases) % 3 != 1)
            if mi == 6:
                if len(h) > 2 and len(cases) % 5:
                    continue                              # the long records: all histories up to length 2, a fifth of the others
                cases.append(C.read_case(18 if typed else -1, shp, shx, ops, sched=[[3], [5, 1], [64], [7]][len(cases) % 4]))
                meta.append((items, ops, mi))
                continue
            cases.append(C.read_case(8 if typed else -1, shp, shx, ops))
            if typed and mi in (2, 3):
                # the typed reader on the record of another type: a mismatch error item, then the iteration goes on
                meta.append(([items[0], ("err", 8, 8, m["records"][1]["shape"]["code"]), items[2]], ops, mi))
                continue
            meta.append((items, ops, mi))
    rep.cov["rule"] = ("exhaustive histories over {iterate 0/1/2/all items, random access at 0..n, seek 0..n and beyond, size hint, shape count} up to "
                       "length %d (quick: all of length <= 2, a rotating third of length 3) plus %d longer random ones, each "
                       "followed by a full iteration, on a file of n = 3 records of pairwise different sizes, on one of equal "
                       "sizes, on one with a null-shape record in the middle, on one whose index order differs from the file order and on one with a record of another type in the middle (typed reads "
                       "answer it with an error and go on), iterator adaptors skip/take included, with index, generic and typed reader alternating; oracle: abstract reader (records, next position); "
                       "non-trivial = distinct case" % (L, extra))
    rep.cov["exhaustive"] = tier == "thorough"
    impl = stages.correspondence(rep, "read", dev, cases, "read(call histories)", vm_sample=60)
    nfail = 0
    for c, (items, ops, mi), r in zip(cases, meta, impl):
        rep.dist("len_%d" % (len(ops) - 1))
        msg = C04.check_against_abstract(C.parse_read(r, ops), ops, items, n)
        if msg:
            nfail += 1
            if nfail == 1:
                rep.violation({"kind": "oracle", "what": msg, "case_kind": "read", "case": c, "ops": ops,
                               "file": ["different sizes", "equal sizes", "null record in the middle", "record of another type in the middle", "index order differs from file order", "header length ends inside the second record", "MultipointZ, short-reading sources"][mi]})
    # ---- the complete Reader (shape + attribute row pairs): after a seek or a partial iteration the bulk read
    # `Reader::read` starts where the reader stands, for shapes and rows alike
    import C08
    import shapes as SH
    pcases, pmeta = [], []
    for code in (1, 13, 28):
        calls = [(0, SH.gen_ctor(rng, code, "small")) for _ in range(4)]
        for ops in ([("readall",)], [("seek", 1), ("readall",)], [("seek", 3), ("readall",)], [("it", 1), ("readall",)],
                    [("it", 2), ("seek", 1), ("it", 1), ("readall",)], [("seek", 2), ("count",), ("readall",)]):
            pcases.append(C08.pair_case(calls, ops))
            pmeta.append(ops)
    pimpl = stages.correspondence(rep, "pair", dev, pcases, "pair(complete Reader: seek / partial iteration, then bulk read)")
    ref_shapes = {}
    for i, (c, ops, r) in enumerate(zip(pcases, pmeta, pimpl)):
        if ops == [("readall",)]:
            rr = C08.parse_pair(r, 4, ops)
            if "ops" in rr:
                ref_shapes[i // 6] = [it[1] for it in rr["ops"][0]["items"] if it[0] == "ok"]
    for ci, (c, ops, r) in enumerate(zip(pcases, pmeta, pimpl)):
        res = C08.parse_pair(r, 4, ops)
        msg = None
        if "ops" not in res:
            msg = "the complete reader could not be opened"
        else:
            pos = 0
            for o, out in zip(ops, res["ops"]):
                if o[0] == "seek":
                    pos = o[1]
                elif o[0] in ("it", "readall"):
                    k = 4 - pos if o[0] == "readall" else o[1]
                    ids = [(it[2] if it[0] == "ok" else it) for it in out["items"]]
                    if ids != list(range(pos, pos + k)):
                        msg = "after %r the complete reader returned the pairs with rows %r, expected %r" % (ops, ids, list(range(pos, pos + k)))
                    else:
                        ref = ref_shapes.get(ci // 6)
                        for it in out["items"]:
                            if ref and it[0] == "ok" and it[2] < len(ref) and list(it[1]) != list(ref[it[2]]):
                                msg = "after %r the complete reader paired row %d with another shape than shape %d" % (ops, it[2], it[2])
                    pos += k
        if msg:
            nfail += 1
            if nfail == 1:
                rep.violation({"kind": "oracle", "what": msg, "case_kind": "pair", "case": c[:300]})
    # ---- the complete reader on given files, with and WITHOUT an index (kind 17): successive iterations and the bulk
    # read go on where the previous one stopped, for shapes and rows alike
    m3 = mk([1, 2, 3, 2])
    shp3, shx3 = refesri.encode_shp(m3), refesri.encode_shx(m3)
    fcases, fmeta = [], []
    for with_idx in (True, False):
        for ops in ([("it", 1), ("it", -1)], [("it", 1), ("readall",)], [("it", 2), ("it", 1), ("readall",)], [("it", 1), ("it", 1), ("it", 1), ("it", -1)],
                    [("readall",)], [("it", -1), ("it", -1)]):
            for nrows in (4, 3):
                fcases.append([17, -1] + C.pack_bytes(shp3) + ([1] + C.pack_bytes(shx3) if with_idx else [0]) + [nrows] + C08.pair_case([], ops)[2:])
                fmeta.append((with_idx, ops, nrows))
    fimpl = stages.correspondence(rep, "pairfile", dev, fcases, "pairfile(complete reader on given files, with and without index)", vm_sample=20)
    for c, (with_idx, ops, nrows), r in zip(fcases, fmeta, fimpl):
        if r[:1] != [0]:
            nfail += 1
            rep.violation({"kind": "oracle", "what": "the complete reader could not be opened on a conformant file: %r" % (r[:4],), "case_kind": "pairfile", "case": c[:200]})
            break
        res = C08.parse_pair([0, 0, 0, 0] + r, 0, ops)
        pos, msg = 0, None
        for o, out in zip(ops, res["ops"]):
            k = min(nrows, 4) - pos if (o[0] == "readall" or o[1] < 0) else min(o[1], min(nrows, 4) - pos)
            ids = [(it[2] if it[0] == "ok" else it) for it in out["items"]]
            if ids != list(range(pos, pos + k)):
                msg = ("complete reader %s index, %d rows for 4 shapes: after %r the call %r returned the pairs with rows %r, expected %r"
                       % ("with" if with_idx else "without", nrows, ops[:ops.index(o)], o, ids, list(range(pos, pos + k))))
                break
            pos += k
        if msg:
            nfail += 1
            rep.violation({"kind": "oracle", "what": msg, "case_kind": "pairfile", "case": c[:200]})
            break
    rep.cov["complete_reader_on_given_files_cases"] = len(fcases)
    rep.sample({"ops": meta[40][1]})
    rep.cov["oracle"] = {"checked": len(cases), "failing": nfail}
    rep.assumptions += ["the complete Reader (shape + attribute row pairs follow the same positions) is exercised by C08's pair "
                        "histories; the theorem here is about ShapeReader"]
