"""C02 — Every written .shp is a well-formed ESRI shapefile (independent decoder)."""
import cases as C
import pipeline as P
import refesri
import shapes
import sfv
import stages


def header_box(buf):
    import struct
    return list(struct.unpack("<8Q", buf[36:100]))


def oracle_file(f, tier):
    """The independent strict validator/decoder must accept the real bytes and
    recover exactly the geometry handed to the writer."""
    w = f["written"]
    if "special" in w:
        return None
    calls0 = f.get("calls") or [("w", i) for i in range(len(f["specs"]))]
    for c, r in zip(calls0, w["results"]):
        if c[0] == "x":
            if r[0] != "err" or r[1] != 8:
                return "a shape of another type was not refused: %r" % (r,)
        elif r != ("ok",):
            return "a write or finalize failed: %r" % (w["results"],)
    buf = w["shp"]["buf"]
    try:
        dec = refesri.strict_decode_shp(buf, require_numbering=True)
    except refesri.Malformed as e:
        return "independent strict decoder rejects the written .shp: %s" % e
    order = [c[1] for c in (f.get("calls") or [("w", i) for i in range(len(f["specs"]))]) if c[0] == "w"]
    want = [P.value_to_rec(f["values"][i]) for i in order]
    got = [r["shape"] for r in dec["records"]]
    if dec["type"] != (f["code"] if want else 0):
        return "header type %r, shapes are of type %r" % (dec["type"], f["code"])
    if len(got) != len(want):
        return "%d records decoded, %d shapes written" % (len(got), len(want))
    for i, (g, x) in enumerate(zip(got, want)):
        if g != x:
            return "record %d: independent decoder recovers %r, written geometry is %r" % (i, g, x)
    # the index
    if f.get("has_shx", True):
        try:
            idx = refesri.strict_decode_shx(w["shx"]["buf"])
        except refesri.Malformed as e:
            return "independent decoder rejects the written .shx: %s" % e
    return None


def run(rep, tier, rng):
    stages.proof_stage(rep, "C02")
    dev = sfv.build_harness("dev")
    nfiles = 500 if tier == "thorough" else 91
    files = []
    for i in range(nfiles):
        code = shapes.ALL_CODES[i % 13]
        prof = rng.choice(["mixed", "mixed", "exact"]) if not (i // 13 == 2 and shapes.dim_of(code) >= 3) else "nom"
        f = P.gen_file(rng, code, nshapes=rng.choice([0, 1, 1, 2, 3, 5]), profile=prof)
        # every third file also offers shapes of another type between the writes (refused: they must leave no trace,
        # not even in the record numbering)
        other = shapes.gen_ctor(rng, rng.choice([t for t in shapes.ALL_CODES if t != code]), "small")
        f["calls"] = P.finalize_placements(rng, len(f["specs"]), rejected=(0.5, other) if i % 3 == 1 else None)
        f["ending"] = rng.choice([0, 0, 1])
        files.append(f)
    rep.cov["rule"] = ("%d files (13 types round-robin, 0-5 shapes from the public constructors, special-value float pool incl. "
                       "NaN in Z/M, measures below NO_DATA, infinities; measured types also without any measure), random finalize "
                       "placement, refused writes of another type in between, ending drop or finalize+drop; "
                       "real bytes compared with the model's bytes; oracle = independent Python strict validator/decoder "
                       "(gen/refesri.py, shares no code with the library or the Coq model) must accept the real .shp/.shx and "
                       "recover exactly the geometry handed to the writer; the Coq whitepaper transcription (Spec/Esri.v + "
                       "Spec/Layout.v, case kind 6) must produce the same bytes as the real writer and as the Python reference "
                       "encoder; non-trivial = distinct case" % nfiles)
    P.run_ctor_stage(rep, dev, files, "c02")
    P.run_write_stage(rep, dev, files, "c02")
    nfail = 0
    ref_cases, ref_expect = [], []
    for f in files:
        rep.dist("type_%s" % shapes.TYPE_NAMES[f["code"]])
        rep.dist("shapes", len(f["specs"]))
        msg = oracle_file(f, tier)
        if msg:
            nfail += 1
            if nfail == 1:
                calls = f["calls"]
                wire = [("w", f["specs"][c[1]]) if c[0] == "w" else (("w", c[1]) if c[0] == "x" else c) for c in calls]
                rep.violation({"kind": "oracle", "what": msg, "case_kind": "whist", "case": C.whist_case(True, f["ending"], wire),
                               "file": f["specs"], "code": f["code"]})
        w = f["written"]
        if "special" in w or any(r != ("ok",) for r in w["results"]):
            continue
        order = [c[1] for c in f["calls"] if c[0] == "w"]
        if not order:
            continue
        box = header_box(w["shp"]["buf"])
        # Coq spec bytes for the layout of these shapes with the real header box
        case = [6, f["code"]] + box + [len(order)]
        for i in order:
            case += f["specs"][i]
        ref_cases.append(case)
        model = {"type": f["code"], "box": box,
                 "records": [{"num": k + 1, "shape": P.value_to_rec(f["values"][i])} for k, i in enumerate(order)]}
        pyshp, pyshx = refesri.encode_shp(model), refesri.encode_shx(model)
        ref_expect.append(C.pack_bytes(pyshp) + C.pack_bytes(pyshx))
        if pyshp != w["shp"]["buf"] or pyshx != w["shx"]["buf"]:
            nfail += 1
            if nfail == 1:
                rep.violation({"kind": "oracle", "what": "real files differ from the Python reference encoding of the written "
                               "geometry (layout: numbers 1..n, M always present, running offsets)", "file": f["specs"],
                               "code": f["code"]})
    # Spec/Esri.v (Coq) == refesri.py (Python) on these layouts
    mism, res = sfv.run_model_diff_ocaml(ref_cases, ref_expect)
    vm = sfv.run_model_diff("C02_ref", ref_cases[:40], ref_expect[:40])
    rep.cov["spec_cross_check"] = {"files": len(ref_cases), "coq_spec_vs_python_reference_mismatches": len(mism) + len(vm)}
    if mism or vm:
        rep.violation({"kind": "correspondence", "what": "Spec/Esri.v + Spec/Layout.v (Coq) and gen/refesri.py (Python) produce "
                       "different bytes for the same layout", "case": ref_cases[(mism or vm)[0]]}, nofail=True)
    rep.sample({"type": files[0]["code"], "constructor_calls": files[0]["specs"][:2], "calls": files[0]["calls"]})
    rep.cov["oracle"] = {"files": len(files), "failing": nfail}
    # ---- the file left by DROP after a finalize that failed (one-shot fault at any operation of the header rewrite,
    # either destination), with or without further writes: still a well-formed shapefile holding what was written
    fcases, fmeta = [], []
    for code in (shapes.ALL_CODES if tier == "thorough" else rng.sample(shapes.ALL_CODES, 4)):
        a, b = shapes.gen_ctor(rng, code, "small"), shapes.gen_ctor(rng, code, "small")
        b0 = C.parse_whist(sfv.run_impl(dev, [C.whist_case(True, 0, [("w", a)])])[0])
        if "special" in b0:
            continue
        for dest, n0 in ((1, b0["shp"]["ops"] - 16), (2, b0["shx"]["ops"] - 16)):
            for j in (range(16) if tier == "thorough" else (0, 3, 9, 14, 15)):
                for later in ([], [("w", b)]):
                    for hs in ((True, False) if dest == 1 else (True,)):
                        fcases.append(C.whist_case(hs, 0, [("w", a), ("f",)] + later, fault=(dest, n0 + j, 0)))
                        fmeta.append((code, 1 + len(later), dest, j))
    fimpl = stages.correspondence(rep, "whist_failed_finalize", dev, fcases, "whist(finalize failing once, then drop)")
    for c, (code, nrec, dest, j), r in zip(fcases, fmeta, fimpl):
        res = C.parse_whist(r)
        msg = None
        if "special" in res:
            msg = "writer panicked"
        elif res["results"][1][0] != "err":
            continue                                   # the fault fell outside the finalize (destination without that operation)
        else:
            try:
                m = refesri.strict_decode_shp(res["shp"]["buf"], require_numbering=True)
                if len(m["records"]) != nrec:
                    msg = "holds %d records, %d were written" % (len(m["records"]), nrec)
            except refesri.Malformed as e:
                msg = str(e)
        if msg:
            nfail += 1
            rep.violation({"kind": "oracle", "what": "the .shp left by drop after a finalize that failed once (operation %d of the "
                           "header rewrite on destination %d) is not a well-formed shapefile of the written shapes: %s"
                           % (j, dest, msg), "case_kind": "whist", "case": c})
            break
    rep.cov["drop_after_failed_finalize_cases"] = len(fcases)
    # ---- the .shp the COMPLETE writer leaves (by path) when the table refuses some rows (missing field, wrong value type):
    # whatever becomes of the table, the .shp is a well-formed shapefile of the shapes it accepted
    import os
    import pathcases as PC
    os.environ["SFV_TMP"] = os.path.join(sfv.CACHE, "tmp")
    os.makedirs(os.environ["SFV_TMP"], exist_ok=True)
    rcases, rmeta = [], []
    for code in (shapes.ALL_CODES if tier == "thorough" else rng.sample(shapes.ALL_CODES, 5)):
        a, b, c2 = shapes.gen_ctor(rng, code, "small", True, 3, 4), shapes.gen_ctor(rng, code, "small", True, 1, 2), shapes.gen_ctor(rng, code, "small", True, 2, 3)
        for kinds in ([0, 1], [1], [0, 2, 0], [1, 0, 0], [0, 0, 1, 2], [2, 1, 0]):
            sp = [a, b, c2, a][:len(kinds)]
            rcases.append(PC.path_case(1, [], b"t.shp", list(zip(kinds, sp)), b"", [(b"t.shp", 1), (b"t.shx", 1)], []))
            rmeta.append((code, kinds))
    rimpl = stages.correspondence(rep, "path_refused_rows", dev, rcases, "path(complete writer, rows refused by the table)", vm_sample=20)
    for c, (code, kinds), r in zip(rcases, rmeta, rimpl):
        p = PC.parse_path(r, 1, [(b"t.shp", 1), (b"t.shx", 1)], [])
        if p["status"] != 0 or p["files"][b"t.shp"] in (None, "other"):
            continue
        try:
            m = refesri.strict_decode_shp(p["files"][b"t.shp"][1], require_numbering=True)
            msg = None if len(m["records"]) == len(kinds) else "holds %d records, %d shapes were accepted" % (len(m["records"]), len(kinds))
        except refesri.Malformed as e:
            msg = str(e)
        if msg:
            nfail += 1
            rep.violation({"kind": "oracle", "what": "complete writer, pairs whose rows the table %r (0 accepts, 1 / 2 refuses): the .shp left behind is not a "
                           "well-formed shapefile of the shapes written: %s" % (kinds, msg), "case_kind": "path", "case": c[:200]})
            break
    rep.cov["complete_writer_with_refused_rows_cases"] = len(rcases)
    # files created by path (ShapeWriter::from_path), also at a path that already holds longer files and under dotted /
    # upper-case names: what is left on disk must be exactly the well-formed bytes of the in-memory writer
    P.path_situations(rep, files[:16 if tier != "thorough" else 48], "c02", with_reads=False)
    rep.assumptions += ["the whitepaper is transcribed twice, independently: Spec/Esri.v (Coq) and gen/refesri.py (Python); they "
                        "are compared byte for byte on every run",
                        "C02's theorem is stated for fault-free Cursor-like destinations (faults: C12)"]
