"""C11 — A crash at any point of writing never makes a reader see a wrong shape."""
import cases as C
import pipeline as P
import shapes
import sfv
import stages


def cuts_of(log, byte_level_upto):
    """Crash states of one destination: (label, persisted bytes, completed flushes) for every operation prefix and,
    for the write operations among the first `byte_level_upto` and inside every header rewrite, every byte cut."""
    out = []
    in_header = False
    for i in range(len(log) + 1):
        pre = log[:i]
        flushes = sum(1 for o in pre if o[0] == "fl")
        out.append(("op%d" % i, C.apply_log(pre), flushes))
        if i < len(log):
            op = log[i]
            if op[0] == "s" and op[1] == 0:
                in_header = True
            if op[0] in ("e", "fl"):
                in_header = False
            if op[0] == "w" and len(op[1]) > 1 and (i < byte_level_upto or in_header):
                for j in range(1, len(op[1])):
                    out.append(("op%d+%db" % (i, j), C.apply_log(pre + [("w", op[1][:j])]), flushes))
    return out


def shapes_before_flush(log, calls):
    """Number of shapes written before each completed flush of the .shp, in order."""
    # replay the calls against the log: each write contributes record chunks; count records by record headers is
    # fragile, so count flushes per finalize instead: the k-th flush belongs to the k-th finalize that had work
    res, written, dirty = [], 0, True
    for c in calls + [("f",)]:
        if c[0] == "f":
            if dirty:
                res.append(written)
            dirty = False
        else:
            written += 1
            dirty = True
    return res


def run(rep, tier, rng):
    stages.proof_stage(rep, "C11")
    dev = sfv.build_harness("dev")
    codes = shapes.ALL_CODES if tier == "thorough" else [shapes.ALL_CODES[i] for i in (0, 2, 4, 7, 9, 11, 12)]
    workloads = []
    for code in codes:
        a, b, c = (shapes.gen_ctor(rng, code, "mixed", True, 2, 3) for _ in range(3))
        for calls in ([("w", 0), ("w", 1), ("f",), ("w", 2)], [("w", 0), ("f",), ("w", 1), ("w", 2), ("f",)],
                      [("f",), ("w", 0), ("w", 1)]):
            workloads.append({"code": code, "specs": [a, b, c], "calls": calls})
    P.run_ctor_stage(rep, dev, workloads, "c11")
    P.run_write_stage(rep, dev, workloads, "c11")          # real trace == model trace (logs compared)
    cases, meta = [], []
    for wl in workloads:
        w = wl["written"]
        if "special" in w:
            continue
        order = [c[1] for c in wl["calls"] if c[0] == "w"]
        exp = [P.on_read(wl["values"][i]) for i in order]
        committed = shapes_before_flush(w["shp"]["log"], wl["calls"])
        pcuts = cuts_of(w["shp"]["log"], 45 if tier == "thorough" else 30)
        qcuts = cuts_of(w["shx"]["log"], 25 if tier == "thorough" else 8)
        if tier != "thorough":
            pcuts = [c for i, c in enumerate(pcuts) if "+" not in c[0] or i % 2 == 0]
        for pi, (pl, pbuf, pfl) in enumerate(pcuts):
            req = -1 if pi % 2 else wl["code"]
            cases.append(C.read_case(req, pbuf, None, [("it", -1)]))
            meta.append((wl, exp, committed, pl, None, pfl, False))
            if pi % 4 == 1:
                # the bulk read (`read` / `read_as`) of the same crash state: no panic either
                cases.append(C.read_case(req, pbuf, None, [("readall",)]))
                meta.append((wl, exp, committed, pl, None, pfl, "bulk"))
            # with the index: the same progress, everything, and a few other prefixes of the .shx trace
            qs = [qcuts[min(len(qcuts) - 1, (pi * len(qcuts)) // max(1, len(pcuts)))], qcuts[-1]]
            if pi % 3 == 0:
                qs += [qcuts[rng.randrange(len(qcuts))] for _ in range(2 if tier != "thorough" else 5)]
            for (ql, qbuf, _) in qs:
                cases.append(C.read_case(req, pbuf, qbuf, [("it", -1), ("nth", 0)]))
                meta.append((wl, exp, committed, pl, ql, pfl, True))
            if pi % 3 == 2:
                # the first record probed as another type (refused), then the iteration, on the same reader
                other = [t for t in shapes.ALL_CODES if t != wl["code"]][pi % 12]
                cases.append(C.read_case(-1, pbuf, qs[0][1], [("probe", other, 0), ("it", -1)]))
                meta.append((wl, exp, committed, pl, qs[0][0], other, "probe"))
    # an index length field that crosses a byte boundary between two finalizes (51 -> 52 entries: 0x00FE -> 0x0102
    # words): torn, it announces more entries than the file holds; every byte cut of the last .shx header rewrite
    # against the complete .shp
    pts52 = [shapes.gen_ctor(rng, 1, "small") for _ in range(52)]
    big = {"code": 1, "specs": pts52, "calls": [("w", i) for i in range(51)] + [("f",), ("w", 51)]}
    P.run_ctor_stage(rep, dev, [big], "c11big")
    P.run_write_stage(rep, dev, [big], "c11big")
    bw = big["written"]
    if "special" not in bw:
        bexp = [P.on_read(v) for v in big["values"]]
        bcommitted = shapes_before_flush(bw["shp"]["log"], big["calls"])
        qlog = bw["shx"]["log"]
        last_seek0 = max(i for i, o in enumerate(qlog) if o[0] == "s" and o[1] == 0)
        for (ql, qbuf, _) in cuts_of(qlog, 0):
            opi = int(ql[2:].split("+")[0])
            if opi >= last_seek0:
                cases.append(C.read_case(-1, bw["shp"]["buf"], qbuf, [("it", -1), ("nth", 0)]))
                meta.append((big, bexp, bcommitted, "complete", ql, 0, True))
        # ... and the .shp of the same workload (its length field crosses a byte boundary too: 0x02EC -> 0x02FA... words),
        # every byte cut of both header rewrites, read without index by iteration and in bulk
        plog = bw["shp"]["log"]
        first_seek0 = min(i for i, o in enumerate(plog) if o[0] == "s" and o[1] == 0 and i > 20)
        for (pl, pbuf, pfl) in cuts_of(plog, 0):
            opi = int(pl[2:].split("+")[0])
            if opi >= first_seek0 and ("+" in pl or opi % 5 == 0):
                cases.append(C.read_case(-1, pbuf, None, [("it", -1)]))
                meta.append((big, bexp, bcommitted, pl, None, pfl, False))
                cases.append(C.read_case(-1, pbuf, None, [("readall",)]))
                meta.append((big, bexp, bcommitted, pl, None, pfl, "bulk"))
    # one large first record (40 points): a header length field torn during the first finalize (0x0032 -> 0x018E
    # words, torn to 0x0132) declares an end that lies INSIDE that record; every byte cut of the header rewrite, read
    # without index by iteration and in bulk
    for code40 in (3, 23) if tier != "thorough" else (3, 13, 23, 8):
        one = {"code": code40, "specs": [shapes.grid_ctor(rng, code40, 1, 40, "small")], "calls": [("w", 0)]}
        P.run_ctor_stage(rep, dev, [one], "c11one")
        P.run_write_stage(rep, dev, [one], "c11one")
        ow = one["written"]
        if "special" in ow:
            continue
        oexp = [P.on_read(v) for v in one["values"]]
        ocommitted = shapes_before_flush(ow["shp"]["log"], one["calls"])
        olog = ow["shp"]["log"]
        fin0 = max(i for i, o in enumerate(olog) if o[0] == "s" and o[1] == 0)
        for (pl, pbuf, pfl) in cuts_of(olog, 0):
            if int(pl[2:].split("+")[0]) >= fin0:
                cases.append(C.read_case(-1, pbuf, None, [("it", -1)]))
                meta.append((one, oexp, ocommitted, pl, None, pfl, False))
                cases.append(C.read_case(code40, pbuf, None, [("readall",)]))
                meta.append((one, oexp, ocommitted, pl, None, pfl, "bulk"))
    rep.cov["rule"] = ("%d workloads (%d types x {w w f w, w f w w f, f w w}, shapes with NaN/inf/special values): the real "
                       "operation traces of both destinations (equal to the model's: compared) are cut at EVERY operation "
                       "boundary and at every byte inside the writes of the first operations and of every header rewrite; the "
                       "real reader is run on the persisted bytes without index and with the .shx cut at the same progress, "
                       "complete, and at other prefixes; plus a 52-point workload whose index length field crosses a byte boundary "
                       "between two finalizes, cut at every byte of the last .shx header rewrite; all compared with the model; oracle: no panic; the Ok items before "
                       "the first error form a prefix of the written shapes; everything written before a completed finalize "
                       "(flush) of the .shp is returned by sequential reading without index; non-trivial = distinct case"
                       % (len(workloads), len(codes)))
    impl = stages.correspondence(rep, "crash", dev, cases, "crash(read on persisted prefixes)")
    nfail = 0
    for c, (wl, exp, committed, pl, ql, pfl, with_idx), r in zip(cases, meta, impl):
        rep.dist("with_index" if with_idx else "no_index")
        rep.dist("byte_cut" if "+" in pl else "op_cut")
        msg = None
        if r in ([2], [-2], [-5]):
            msg = "panic or dead process on a crash state"
        elif with_idx == "probe":
            rd = C.parse_read(r, [("probe", pfl, 0), ("it", -1)])
            if "ops" in rd:
                pr = rd["ops"][0]["nth"]
                if pr is not None and pr[0] == "ok":
                    msg = ("read_nth_shape_as::<type %d>(0) returned a shape from the crash state (shp %s, shx %s) of a file of type %d"
                           % (pfl, pl, ql, wl["code"]))
                for i, it in enumerate(rd["ops"][1]["items"]):
                    if msg or it[0] != "ok":
                        break
                    if i >= len(exp) or not P.same_modulo(exp[i][0], exp[i][1], it[1]):
                        msg = ("after the first record was probed as type %d (refused), item %d of the iteration over the crash state "
                               "(shp %s, shx %s) is not the %d-th written shape" % (pfl, i, pl, ql, i))
        elif with_idx == "bulk":
            rd = C.parse_read(r, [("readall",)])
            if rd.get("panic") or ("ops" in rd and rd["ops"][0]["all"][0] == "panic"):
                msg = "the bulk read panicked on the crash state %s" % pl
            elif "ops" in rd and rd["ops"][0]["all"][0] == "ok":
                vals = rd["ops"][0]["all"][1]
                if len(vals) > len(exp) or any(not P.same_modulo(exp[i][0], exp[i][1], v) for i, v in enumerate(vals)):
                    msg = "the bulk read of the crash state %s returned something else than a prefix of the written shapes" % pl
        else:
            ops = [("it", -1), ("nth", 0)] if with_idx else [("it", -1)]
            rd = C.parse_read(r, ops)
            if "ops" in rd:
                items = rd["ops"][0]["items"]
                oks = 0
                for i, it in enumerate(items):
                    if it[0] == "panic":
                        msg = "panic item"
                        break
                    if it[0] != "ok":
                        break
                    if i >= len(exp) or not P.same_modulo(exp[i][0], exp[i][1], it[1]):
                        msg = "item %d read from the crash state (shp %s, shx %s) is not the %d-th written shape" % (i, pl, ql, i)
                        break
                    oks += 1
                if not msg and not with_idx and pfl > 0:
                    need = committed[pfl - 1] if pfl - 1 < len(committed) else committed[-1]
                    if oks < need:
                        msg = ("%d shapes were written before the last completed finalize of the .shp, only %d are readable "
                               "from the crash state %s" % (need, oks, pl))
                if not msg and with_idx:
                    nth = rd["ops"][1]["nth"]
                    if nth is not None and nth[0] == "ok" and (not exp or not P.same_modulo(exp[0][0], exp[0][1], nth[1])):
                        msg = "read_nth(0) on a crash state returned a shape that was not the first written one"
        if msg:
            nfail += 1
            if nfail == 1:
                rep.violation({"kind": "oracle", "what": msg, "case_kind": "read", "case": c, "calls": wl["calls"],
                               "specs": wl["specs"], "shp_cut": pl, "shx_cut": ql})
    # ---- a finalize that FAILS once (I/O fault at one of its operations on either destination) in the middle of the
    # workload, more shapes, a completed finalize: every shape written before that completed finalize is readable, with
    # and without the index (the final state is a crash state too: the one where nothing is lost)
    for code_f in (shapes.ALL_CODES if tier == "thorough" else rng.sample(shapes.ALL_CODES, 4)):
        a, b, c2 = (shapes.gen_ctor(rng, code_f, "small") for _ in range(3))
        one = C.parse_whist(sfv.run_impl(dev, [C.whist_case(True, 0, [("w", a)])])[0])
        base = C.parse_whist(sfv.run_impl(dev, [C.whist_case(True, 0, [("w", a), ("w", b), ("w", c2)])])[0])
        if "special" in one or "special" in base:
            continue
        want = sfv.run_impl(dev, [C.read_case(-1, base["shp"]["buf"], None, [("it", -1)]), C.read_case(-1, base["shp"]["buf"], base["shx"]["buf"], [("it", -1)])])
        fcs = [C.whist_case(True, 1, [("w", a), ("f",), ("w", b), ("w", c2)], fault=(dest, n0 + j, 0))
               for dest, n0 in ((1, one["shp"]["ops"] - 16), (2, one["shx"]["ops"] - 16)) for j in (range(16) if tier == "thorough" else (0, 1, 7, 14, 15))]
        for fc, r in zip(fcs, stages.correspondence(rep, "whist_ff", dev, fcs, "whist(finalize failing once, more shapes, finalize)", vm_sample=10)):
            res = C.parse_whist(r)
            if "special" in res or res["results"][1][0] != "err" or any(x != ("ok",) for x in res["results"][2:]):
                continue
            got = sfv.run_impl(dev, [C.read_case(-1, res["shp"]["buf"], None, [("it", -1)]), C.read_case(-1, res["shp"]["buf"], res["shx"]["buf"], [("it", -1)])])
            if got != want:
                nfail += 1
                rep.violation({"kind": "oracle", "what": "three shapes of type %d, the finalize after the first failing once (destination %d, its operation %d), "
                               "then a completed finalize: %s, the shapes written before the completed finalize are not all readable"
                               % (code_f, fc[3], fc[4], "without index" if got[0] != want[0] else "with the index"), "case_kind": "whist", "case": fc})
                break
    # ---- a shape with more than 1024 points in one part (beyond the reader's pre-sizing cap) followed by a small one:
    # operation-level cuts; the model reads them too in the thorough tier (its reader is quadratic in the record size)
    for code_l, nparts_l, npts_l in ((8, 1, 1030), (3, 1, 1100)) + (((13, 2, 1030), (28, 1, 2050)) if tier == "thorough" else ()):
        wl = {"code": code_l, "specs": [shapes.grid_ctor(rng, code_l, nparts_l, npts_l, "small"), shapes.grid_ctor(rng, code_l, 1, 2, "small")],
              "calls": [("w", 0), ("f",), ("w", 1)]}
        P.run_ctor_stage(rep, dev, [wl], "c11long", model=(tier == "thorough"))
        P.run_write_stage(rep, dev, [wl], "c11long", model=(tier == "thorough"))
        w = wl["written"]
        if "special" in w:
            continue
        lexp = [P.on_read(wl["values"][i]) for i in (0, 1)]
        pc = cuts_of(w["shp"]["log"], 0)
        pc = [c for i, c in enumerate(pc) if "+" not in c[0] and (i % 41 == 0 or int(c[0][2:]) > len(w["shp"]["log"]) - 70)]
        lcases, lmeta = [], []
        for (pl, pbuf, pfl) in pc:
            lcases.append(C.read_case(-1, pbuf, None, [("it", -1)]))
            lmeta.append(pl)
            lcases.append(C.read_case(code_l, pbuf, w["shx"]["buf"], [("it", -1)]))
            lmeta.append(pl + " (complete index)")
        # through the model only a handful of these states (its reader is quadratic in the record size); all of them through
        # the implementation and the oracle
        nmod = 6 if tier == "thorough" else 0
        limpl = (stages.correspondence(rep, "crash_long", dev, lcases[-nmod:], "crash(shape of more than 1024 points)") if nmod else [])
        limpl = stages.correspondence(rep, "crash_long_i", dev, lcases[:len(lcases) - nmod], "crash(shape of more than 1024 points)", model=False) + limpl
        for c, pl, r in zip(lcases, lmeta, limpl):
            rd = C.parse_read(r, [("it", -1)])
            msg = "panic or dead process on a crash state" if (r in ([2], [-2], [-5]) or rd.get("panic")) else None
            if not msg and "ops" in rd:
                for i, it in enumerate(rd["ops"][0]["items"]):
                    if it[0] != "ok":
                        break
                    if i >= len(lexp) or not P.same_modulo(lexp[i][0], lexp[i][1], it[1]):
                        msg = ("item %d read from the crash state %s of a file whose first shape has %d points in one part is not the %d-th "
                               "written shape (%d values read, %d written)" % (i, pl, npts_l, i, len(it[1]), len(lexp[i][0]) if i < len(lexp) else 0))
                        break
            if msg:
                nfail += 1
                rep.violation({"kind": "oracle", "what": msg, "case_kind": "read", "shp_cut": pl, "type": code_l})
                break
    # ---- crash states opened by path: which index file the reader picks up (dotted names, sibling shapefiles, stale
    # index files), against the directory model (Model/Paths.v; lib/pathmodel.py)
    import os
    import pathmodel
    import random
    pathmodel.stage(rep, dev, random.Random(rep.seed * 7919 + 11), "c11p", 0, 400 if tier == "thorough" else 100)
    rep.sample({"calls": workloads[0]["calls"], "shp_cut": meta[5][3], "shx_cut": meta[5][4]})
    rep.cov["oracle"] = {"crash_states_read": len(cases), "failing": nfail}
    rep.assumptions += ["crash model = the property's own: a byte-level prefix of the operations issued to each destination, "
                        "independently for .shp and .shx; OS write-back reordering is outside it",
                        "theorems cover the route without index (C11_crash_prefix) and the torn length field (L4); the route "
                        "with index and 'committed shapes stay readable' are checked on the real reader for every cut"]
