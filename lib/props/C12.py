"""C12 — Destination I/O failures surface from the failing call; finalize is retryable."""
import cases as C
import shapes
import sfv
import stages


def workloads(rng, code):
    a = shapes.gen_ctor(rng, code, "small", True, 2, 3)
    b = shapes.gen_ctor(rng, code, "small", True, 2, 3)
    out = [
        ("w w f", [("w", a), ("w", b), ("f",)]),
        ("w f w", [("w", a), ("f",), ("w", b)]),
        ("f w", [("f",), ("w", a)]),
    ]
    if shapes.dim_of(code) >= 3:
        # a shape whose measures (and heights) are all NaN — its finalize commits empty M / Z ranges — then shapes whose
        # ranges do not contain 0
        n = shapes.gen_ctor(rng, code, "nanm", True, 2, 3)
        p, q = shapes.gen_ctor(rng, code, "posm", True, 2, 3), shapes.gen_ctor(rng, code, "posm", True, 2, 3)
        out.append(("n f p q", [("w", n), ("f",), ("w", p), ("w", q)]))
    return out


def run(rep, tier, rng):
    stages.proof_stage(rep, "C12")
    dev = sfv.build_harness("dev")
    cases, meta = [], []
    base_cases = []
    codes = shapes.ALL_CODES if tier == "thorough" else [shapes.ALL_CODES[i] for i in (0, 3, 5, 8, 10, 12)]
    wl = {code: workloads(rng, code) for code in codes}
    for code in codes:
        for name, calls in wl[code]:
            for hs in (True, False):
                base = C.whist_case(hs, 1, calls)
                base_cases.append(base)
    bases = [C.parse_whist(r) for r in sfv.run_impl(dev, base_cases)]
    bi = 0
    for code in codes:
        for name, calls in wl[code]:
            for hs in (True, False):
                base = bases[bi]
                bi += 1
                nops = {1: base["shp"]["ops"], 2: base["shx"]["ops"]}
                for dest in ((1, 2) if hs else (1,)):
                    for k in range(nops[dest] + 1):
                        for pers in (0, 1):
                            # the history, then heal and finalize again (the retry), ending finalize+drop
                            cases.append(C.whist_case(hs, 1, calls + [("h",), ("f",)], fault=(dest, k, pers)))
                            meta.append(("retry", name, code, hs, dest, k, pers, len(calls), base))
                            # the same without healing: drop on a failing destination must not panic
                            if k % 3 == 0:
                                cases.append(C.whist_case(hs, 0, calls, fault=(dest, k, pers)))
                                meta.append(("drop", name, code, hs, dest, k, pers, len(calls), base))
    # short writes: compared with the unchunked run of the same history (bytes only)
    chunk_cases, chunk_meta = [], []
    bi = 0
    for code in codes:
        for name, calls in wl[code]:
            for hs in (True, False):
                base = bases[bi]
                bi += 1
                for c in ([1, 2, 3, 7, 19, 20, 21, 64] if hs else [1, 5]):
                    for pers in (0, 1):
                        chunk_cases.append(C.whist_case(hs, 1, calls, fault=(3, c, pers)))
                        chunk_meta.append((name, code, hs, c, pers, base))
    rep.cov["rule"] = ("%d types x workloads {write write finalize, write finalize write, finalize write} x {shx, no shx}: for "
                       "EVERY k in the range of operations the workload issues on each destination (write_all calls, seeks, "
                       "flushes counted by the device), one-shot and persistent, the history is followed by heal + finalize "
                       "(the retry) and finalize+drop, or dropped on the failing destination; results and bytes compared with "
                       "the model; short writes with chunk sizes 1, 2, 3, 7, 19, 20, 21, 64 (constant and mixed schedules) "
                       "compared byte for byte with the unchunked run; oracle: calls before the fault are Ok, the call that "
                       "issues the failing operation returns the injected error, later calls never panic, after heal + finalize "
                       "the files equal those of the undisturbed run; non-trivial = distinct case" % len(codes))
    impl = stages.correspondence(rep, "wfault", dev, cases, "wfault")
    nfail, surfaced, exhaustive_k = 0, 0, 0
    n_f15 = 0
    for c, m, r in zip(cases, meta, impl):
        kind, name, code, hs, dest, k, pers, ncalls, base = m
        rep.dist("%s_dest%d_%s" % (kind, dest, "persistent" if pers else "oneshot"))
        res = C.parse_whist(r)
        msg = None
        if "special" in res:
            msg = "writer panicked under a destination fault (dest %d, k %d)" % (dest, k)
        else:
            rs = res["results"]
            if any(x[0] == "panic" for x in rs):
                msg = "panic result"
            errs = [i for i, x in enumerate(rs) if x[0] == "err"]
            total = base["shp"]["ops"] if dest == 1 else base["shx"]["ops"]
            # operations issued before the heal call: the base run's trailing finalize (seek, 13 header chunks,
            # seek end, flush = 16 operations) only has something to do when the workload ends with a write
            total -= 16 if name[-1] in "wq" else 0
            if kind == "retry":
                if k < total:
                    if not errs:
                        msg = "operation %d of destination %d failed but every call returned Ok" % (k, dest)
                    elif rs[errs[0]][1] != 3:
                        msg = "the failing call returned %r, not the injected error" % (rs[errs[0]],)
                    else:
                        surfaced += 1
                # after heal + finalize (+ finalize, drop) the files must be those of the undisturbed run, provided
                # the fault hit a finalize (a failed write_shape legitimately loses that shape)
                only_finalizes_failed = all(_call_kind(c, i) == "f" for i in errs)
                # (F15, repaired: a write_shape issued after a failed finalize used to land inside the header; such
                # histories are held to the same standard as all others)
                wrote_after_failed_finalize = False
                pending = False
                for i, x in enumerate(rs):
                    kd = _call_kind(c, i)
                    if kd == "f":
                        pending = (x[0] == "err") or (pending and x[0] != "ok")
                    elif kd == "w" and pending and x[0] == "ok":
                        wrote_after_failed_finalize = True
                if only_finalizes_failed and wrote_after_failed_finalize:
                    n_f15 += 1
                if only_finalizes_failed:
                    if rs[-1] != ("ok",) or rs[-2] != ("ok",):
                        msg = msg or "finalize retried on a healed destination failed: %r" % (rs[-2:],)
                    elif res["shp"]["buf"] != base["shp"]["buf"] or res["shx"]["buf"] != base["shx"]["buf"]:
                        msg = msg or "after the retried finalize the files differ from those of the undisturbed run"
        if msg:
            nfail += 1
            if nfail == 1:
                rep.violation({"kind": "oracle", "what": msg, "case_kind": "whist", "case": c, "workload": name, "dest": dest,
                               "k": k, "persistent": pers, "impl_result": r[:40]})
    # chunked runs
    cimpl = sfv.run_impl(dev, chunk_cases)
    for c, (name, code, hs, cs, pers, base), r in zip(chunk_cases, chunk_meta, cimpl):
        rep.count_case((c, r))
        res = C.parse_whist(r)
        msg = None
        if "special" in res or any(x != ("ok",) for x in res["results"]):
            msg = "short writes (chunk %d) made a call fail or panic" % cs
        elif res["shp"]["buf"] != base["shp"]["buf"] or res["shx"]["buf"] != base["shx"]["buf"]:
            msg = "destination accepting at most %d bytes per write call received different bytes" % cs
        if msg:
            nfail += 1
            if nfail == 1:
                rep.violation({"kind": "oracle", "what": msg, "case_kind": "whist", "case": c, "workload": name, "chunk": cs})
    rep.cov["histories_with_a_write_after_a_failed_finalize"] = n_f15
    rep.cov["faults_surfaced_from_the_failing_call"] = surfaced
    rep.cov["chunked_runs"] = len(chunk_cases)
    rep.cov["exhaustive"] = True
    rep.sample({"workload": meta[7][1], "dest": meta[7][4], "k": meta[7][5], "persistent": meta[7][6]})
    rep.cov["oracle"] = {"checked": len(cases) + len(chunk_cases), "failing": nfail}
    rep.assumptions += ["write_all itself is std code: modelled by write_all_loop (C12_chunking) and exercised through the "
                        "harness's short-writing destination"]


def _call_kind(case, idx):
    """Kind of the idx-th call of a whist case ('w' / 'f' / 'h'); walks the wire format."""
    import shapes as S
    c = S.Cur(list(case))
    for _ in range(6):
        c.next()
    n = c.next()
    for i in range(n):
        k = c.next()
        if k == 1:
            _skip_ctor(c)
        if i == idx:
            return {0: "f", 1: "w", 2: "h"}[k]
    return "f"          # the trailing finalize of ending 1


def _skip_ctor(c):
    import shapes as S
    code = c.next()
    d = S.dim_of(code)
    if code == 0:
        return
    if code in S.POINT_CODES:
        for _ in range(d):
            c.next()
        return
    if code in S.MULTIPOINT_CODES:
        c.pts(d)
        return
    sub = c.next()
    if code in S.POLYLINE_CODES:
        if sub == 0:
            c.pts(d)
        else:
            for _ in range(c.next()):
                c.pts(d)
        return
    if sub == 0:
        c.next()
        c.pts(d)
    else:
        for _ in range(c.next()):
            c.next()
            c.pts(d)
