"""C04 — The .shx index written alongside a .shp addresses exactly its records."""
import struct

import cases as C
import pipeline as P
import shapes
import sfv
import stages


def walk_shp(buf):
    """(offset_words, content_words) of every record found by walking the .shp."""
    out, pos = [], 100
    while 0 <= pos and pos + 8 <= len(buf):
        _, words = struct.unpack(">ii", buf[pos:pos + 8])
        out.append((pos // 2, words))
        if words < 0:
            return out, -1                  # a negative content length: the walk cannot go on
        pos += 8 + 2 * words
    return out, pos


def oracle_index(f):
    w = f["written"]
    if "special" in w:
        return None
    shp, shx = w["shp"]["buf"], w["shx"]["buf"]
    n = len([c for c in f["calls"] if c[0] == "w"])
    if len(shx) != 100 + 8 * n:
        return ".shx has %d bytes, expected 100 + 8*%d" % (len(shx), n)
    if shx[:24] != shp[:24] or shx[28:100] != shp[28:100]:
        return ".shx header differs from the .shp header beyond the length field"
    if struct.unpack(">i", shx[24:28])[0] != 50 + 4 * n:
        return ".shx length field %d, expected 50 + 4*%d" % (struct.unpack(">i", shx[24:28])[0], n)
    entries = [struct.unpack(">ii", shx[100 + 8 * i:108 + 8 * i]) for i in range(n)]
    real, end = walk_shp(shp)
    if end != len(shp) or real != entries:
        return "index entries %r do not address the records found in the .shp %r" % (entries[:6], real[:6])
    return None


def reader_ops(n, key):
    """A history probing count, size hints while iterating, random access at
    every index in a non-monotone order and beyond the end, then the rest."""
    ops = [("count",), ("hint",), ("it", 1), ("hint",)]
    if n > 2:
        ops += [("it", 1), ("hint",)]
    ops += [("nth", i) for i in P.nth_order(min(n, 6), key)]
    ops += [("nth", n), ("nth", n + 7), ("hint",), ("it", -1), ("hint",), ("it", -1)]
    if n > 1:
        # random access away from index 0, then the size hint and iteration of the same reader (which restart at 0)
        ops += [("nth", n - 1), ("hint",), ("it", 1), ("nth", 1), ("hint",), ("it", -1)]
        # iterator adaptors (skip / take), also reaching beyond the last shape
        ops += [("seek", 0), ("skiptake", 1, 1), ("hint",), ("skiptake", n, 2), ("hint",), ("it", -1)]
        # ... and on an iteration resumed in the middle (the adaptors count from where the reader stands)
        ops += [("seek", 0), ("it", 1), ("skiptake", 0, 1), ("hint",), ("skiptake", 1, 1), ("hint",), ("it", -1)]
    # a seek beyond the last shape, then the size hint (nothing is left) and an iteration; the same at exactly the end
    ops += [("seek", n + 3), ("hint",), ("it", -1), ("seek", n), ("hint",), ("it", 1), ("seek", 0), ("hint",)]
    return ops


def abstract_reader(n, ops):
    """Expected (kind, value) per op in terms of shape indices."""
    nxt, out = 0, []
    for o in ops:
        if o[0] == "count":
            out.append(("count", n))
        elif o[0] == "hint":
            out.append(("hint", n - nxt))
        elif o[0] == "it":
            avail = list(range(nxt, n))
            if o[1] < 0 or len(avail) < o[1]:
                out.append(("items", avail, 1))
                nxt = n
            else:
                out.append(("items", avail[:o[1]], 0))
                nxt += o[1]
        elif o[0] == "readall":
            # `read` / `read_as`: everything from where the reader stands
            out.append(("all", list(range(nxt, n))))
            nxt = n
        elif o[0] == "skiptake":
            # iterator adaptors skip(k).take(j), j >= 1: pulls k + j items or until the end, keeps the last j
            avail = list(range(nxt, n))
            out.append(("items_only", avail[o[1]:o[1] + o[2]]))
            nxt = min(n, nxt + o[1] + o[2])
        elif o[0] == "nth":
            if o[1] < n:
                out.append(("nth", o[1]))
                nxt = 0
            else:
                out.append(("nth", None))
        elif o[0] == "seek":
            out.append(("seek",))
            nxt = min(o[1], n)
    return out


def check_against_abstract(rd, ops, seq_items, n):
    """The real reader's answers vs the abstract reader over the items of a
    plain sequential iteration without index."""
    if rd.get("panic") or "open_err" in rd:
        return "open failed or panicked: %r" % (rd,)
    for o, got, want in zip(ops, rd["ops"], abstract_reader(n, ops)):
        if want[0] == "count" and got.get("count") != want[1]:
            return "shape_count %r, %d shapes written" % (got.get("count"), n)
        if want[0] == "hint" and got.get("hint") != (want[1], want[1]) and got.get("hint") != want[1]:
            return "size hint %r, %d shapes still to come" % (got.get("hint"), want[1])
        if want[0] == "items":
            items = got["items"]
            if [tuple(i) for i in items] != [tuple(seq_items[k]) for k in want[1]] or got["ended"] != want[2]:
                return "iteration (op %r) yielded %d items (ended %r), expected records %r" % (o, len(items), got["ended"], want[1])
        if want[0] == "all":
            res = got["all"]
            exp = [seq_items[k] for k in want[1]]
            first_err = next((e for e in exp if e[0] != "ok"), None)
            if first_err is not None:
                if tuple(res) != tuple(first_err):
                    return "bulk read returned %r, expected the first error %r" % (res[:4], first_err[:4])
            elif res[0] != "ok" or [list(v) for v in res[1]] != [list(e[1]) for e in exp]:
                return "bulk read (read / read_as) did not return records %r: %r" % (want[1], res[:2] if res[0] != "ok" else len(res[1]))
        if want[0] == "items_only":
            items = got["items"]
            if [tuple(i) for i in items] != [tuple(seq_items[k]) for k in want[1]]:
                return "iterator adaptors %r yielded %d items, expected records %r" % (o, len(items), want[1])
        if want[0] == "nth":
            if want[1] is None:
                if got["nth"] is not None:
                    return "read_nth(%d) beyond the end returned something" % o[1]
            elif got["nth"] is None or tuple(got["nth"]) != tuple(seq_items[want[1]]):
                return "read_nth(%d) differs from item %d of the sequential iteration" % (o[1], o[1])
        if want[0] == "seek" and got.get("seek") != ("ok",):
            return "seek failed: %r" % (got.get("seek"),)
    return None


def run(rep, tier, rng):
    stages.proof_stage(rep, "C04")
    dev = sfv.build_harness("dev")
    nfiles = 300 if tier == "thorough" else 65
    files = []
    for i in range(nfiles):
        code = shapes.ALL_CODES[i % 13]
        # the second file of every measured type carries no measure at all (every M = NO_DATA)
        prof = "nom" if (i // 13 == 1 and shapes.dim_of(code) >= 3) else "mixed"
        f = P.gen_file(rng, code, nshapes=rng.choice([0, 1, 2, 3, 4, 6]) if prof == "mixed" else 3, profile=prof)
        # every fourth file also offers shapes of another type in between (refused: the index must not count them)
        other = shapes.gen_ctor(rng, rng.choice([t for t in shapes.ALL_CODES if t != code]), "small")
        f["calls"] = P.finalize_placements(rng, len(f["specs"]), rejected=(0.6, other) if i % 4 == 2 else None)
        files.append(f)
    # more than 1024 records (beyond every pre-allocation cap of the reader)
    big = {"code": 1, "specs": [shapes.gen_ctor(rng, 1, "small") for _ in range(1030 if tier != "thorough" else 2100)]}
    big["calls"] = [("w", i) for i in range(len(big["specs"]))]
    files.append(big)
    rep.cov["rule"] = ("%d files x 13 types, 0-6 shapes of varying sizes (offsets not an arithmetic progression: %s), random "
                       "finalize placement, plus one file of %d records; writer bytes and traces compared with the model; reader "
                       "histories {count, size hint while iterating, random access in non-monotone order and beyond the end, "
                       "re-iteration} on both files and plain iteration without index, compared with the model; oracle: .shx "
                       "parsed independently must address the records found by walking the real .shp, header equal except "
                       "length = 50+4n, reader answers = abstract reader over the no-index iteration; non-trivial = distinct case"
                       % (nfiles, "measured below", len(big["specs"])))
    P.run_ctor_stage(rep, dev, files, "c04")
    P.run_write_stage(rep, dev, files, "c04")
    nfail, nonprog = 0, 0
    rcases, meta = [], []
    for fi, f in enumerate(files):
        msg = oracle_index(f)
        w = f["written"]
        if msg:
            nfail += 1
            if nfail == 1:
                wire = [("w", f["specs"][c[1]]) if c[0] == "w" else (("w", c[1]) if c[0] == "x" else c) for c in f["calls"]]
                rep.violation({"kind": "oracle", "what": msg, "case_kind": "whist", "case": C.whist_case(True, 0, wire)[:2000],
                               "code": f["code"], "shapes": len(f["specs"])})
        if "special" in w:
            continue
        n = len(f["specs"])
        offs = [o for o, _ in walk_shp(w["shp"]["buf"])[0]]
        if len(set(b - a for a, b in zip(offs, offs[1:]))) > 1:
            nonprog += 1
        rep.dist("shapes", n)
        for req in (-1, f["code"]):
            ops = reader_ops(n, fi)
            # every fourth history on sources (both files) that deliver a few bytes per read call
            sched = [[16], [3], [7, 1], [19]][(len(rcases) // 8) % 4] if (len(rcases) // 2) % 4 == 1 else ()
            rcases.append(C.read_case(req, w["shp"]["buf"], w["shx"]["buf"], ops, sched=sched))
            meta.append((fi, req, ops, True))
            rcases.append(C.read_case(req, w["shp"]["buf"], None, [("it", -1)]))
            meta.append((fi, req, [("it", -1)], False))
    rep.cov["files_with_non_arithmetic_offsets"] = nonprog
    impl = stages.correspondence(rep, "read", dev, rcases, "read(count/nth/hint histories)")
    seq = {}
    for (fi, req, ops, with_idx), r in zip(meta, impl):
        if not with_idx:
            seq[(fi, req)] = C.parse_read(r, ops)
    for (fi, req, ops, with_idx), r, c in zip(meta, impl, rcases):
        if not with_idx:
            continue
        base = seq[(fi, req)]
        n = len(files[fi]["specs"])
        if base.get("panic") or "open_err" in base or not base["ops"][0]["ended"] or len(base["ops"][0]["items"]) != n:
            msg = "iteration without index does not yield the %d written shapes" % n
        else:
            msg = check_against_abstract(C.parse_read(r, ops), ops, base["ops"][0]["items"], n)
        if msg:
            nfail += 1
            if nfail == 1:
                rep.violation({"kind": "oracle", "what": msg, "case_kind": "read", "case": c[:3000], "ops": ops, "shapes": n})
    rep.sample({"type": files[0]["code"], "calls": files[0]["calls"], "reader_ops": reader_ops(len(files[0]["specs"]), 0)})
    rep.cov["oracle"] = {"files": len(files), "reader_histories": len(rcases), "failing": nfail}
    path_pairs(rep, files[:(40 if tier == "thorough" else 12)])
    # ---- a finalize that fails once (I/O fault at one of its operations on either destination), then more shapes: the
    # index the writer finally leaves still addresses exactly the records of the .shp
    fn = 0
    for code in (shapes.ALL_CODES if tier == "thorough" else rng.sample(shapes.ALL_CODES, 4)):
        a, b, c2 = (shapes.gen_ctor(rng, code, "small") for _ in range(3))
        one = C.parse_whist(sfv.run_impl(dev, [C.whist_case(True, 0, [("w", a)])])[0])
        if "special" in one:
            continue
        fcases = [C.whist_case(True, 0, [("w", a), ("f",), ("w", b), ("w", c2)], fault=(dest, n0 + j, 0))
                  for dest, n0 in ((1, one["shp"]["ops"] - 16), (2, one["shx"]["ops"] - 16))
                  for j in (range(16) if tier == "thorough" else (0, 3, 9, 14, 15))]
        for fc, r in zip(fcases, stages.correspondence(rep, "whist_ff", dev, fcases, "whist(finalize failing once, then more shapes)", vm_sample=10)):
            res = C.parse_whist(r)
            fn += 1
            if "special" in res or res["results"][1][0] != "err" or any(x != ("ok",) for x in res["results"][2:]):
                continue
            msg = oracle_index({"written": res, "calls": [("w", 0), ("w", 1), ("w", 2)]})
            if msg:
                nfail += 1
                rep.violation({"kind": "oracle", "what": "after a finalize that failed once (destination %d) and two more shapes: %s" % (fc[3], msg),
                               "case_kind": "whist", "case": fc})
                break
    rep.cov["histories_with_a_failed_finalize_then_more_shapes"] = fn
    # ---- the complete reader reports the number of index entries as well, whatever the table holds (here: fewer rows
    # than shapes, after calls whose row the table refused — the situation of known finding F10 of C08)
    import C08
    ccases, cmeta = [], []
    for code in (shapes.ALL_CODES if tier == "thorough" else rng.sample(shapes.ALL_CODES, 5)):
        a = shapes.gen_ctor(rng, code, "small", True, 1, 2)
        for kinds in ([0, 0, 0], [0, 1, 0], [1, 0], [0, 2, 1, 0], [1]):
            ccases.append(C08.pair_case([(k, a) for k in kinds], [("count",)]))
            cmeta.append(kinds)
    cimpl = stages.correspondence(rep, "pair_count", dev, ccases, "pair(shape_count of the complete reader)", vm_sample=20)
    for c, kinds, r in zip(ccases, cmeta, cimpl):
        if r in ([-4], [-2], [2], [-5]):
            continue
        res = C08.parse_pair(r, len(kinds), [("count",)])
        if "ops" in res and res["ops"][0]["count"] != res["counts"][1]:
            rep.violation({"kind": "oracle", "what": "the complete reader reports %r shapes, the .shx holds %d entries (the .dbf %d rows)"
                           % (res["ops"][0]["count"], res["counts"][1], res["counts"][2]), "case_kind": "pair", "case": c})
            break
    rep.cov["complete_reader_count_cases"] = len(ccases)
    rep.assumptions += ["path-created .shp/.shx pairs go through BufWriter<File>: covered by the harness's path mode (files "
                        "re-read from disk and compared with the in-memory bytes), not by the theorem"]


def path_pairs(rep, files):
    """Path-created .shp/.shx pairs (ShapeWriter::from_path): the bytes on disk
    must equal the in-memory destinations' bytes."""
    # files created by path (ShapeWriter::from_path): fresh path, dotted name next to a sibling shapefile, path holding
    # longer stale files, upper-case extension; bytes on disk == in-memory bytes, path-based readers == in-memory reads
    P.path_situations(rep, files, "c04")
    rep.cov["path_created_pairs"] = rep.cov.get("path_route_files", 0)
    # which file is the index of a .shp opened by path, against the directory model (Model/Paths.v; lib/pathmodel.py)
    import os
    import pathmodel
    import random
    pathmodel.stage(rep, os.path.join(sfv.TARGET, "debug", "runner"), random.Random(rep.seed * 7919 + 4), "c04p", 0,
                    500 if rep.tier == "thorough" else 120)
