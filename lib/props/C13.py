"""C13 — Truncated or failing sources give errors and only genuine shapes."""
import cases as C
import files as F
import refesri
import sfv
import stages


def record_ends(model):
    ends, pos = [], 100
    for r in model["records"]:
        pos += len(refesri.encode_record(r["num"], r["shape"]))
        ends.append(pos)
    return ends


def check_items(items, want, ends, l, with_idx, label):
    """items: parsed iteration items on the file cut at l; want: originals."""
    n_inside = sum(1 for e in ends if e <= l)
    oks = 0
    for i, it in enumerate(items):
        if it[0] == "panic":
            return "panic item"
        if it[0] == "ok":
            if i >= len(want) or list(it[1]) != list(want[i]):
                return "%s: item %d is not the original shape at that position (invented data)" % (label, i)
            oks += 1
        elif not with_idx:
            if i != n_inside:
                return "%s: error at item %d, but %d records are wholly inside the retained bytes" % (label, i, n_inside)
            if tuple(it[:2]) != ("err", 1):
                return "%s: the cut record is reported as %r, not as Io(UnexpectedEof)" % (label, it[:3])
            if i != len(items) - 1:
                return "%s: items after the first error (no index)" % label
        else:
            if i < n_inside:
                return "%s: record %d is wholly inside the retained bytes but was not returned" % (label, i)
    if not with_idx and l < (ends[-1] if ends else 100) and oks != n_inside:
        return "%s: %d shapes returned, %d records wholly inside" % (label, oks, n_inside)
    if with_idx and oks < n_inside:
        return "%s: %d shapes returned, %d records wholly inside" % (label, oks, n_inside)
    return None


def run(rep, tier, rng):
    stages.proof_stage(rep, "C13")
    dev = sfv.build_harness("dev")
    cases, meta = [], []
    path_fail, path_cuts = [], [0]
    nmodels = 26 if tier == "thorough" else 13
    OPSI = [("it", -1), ("nth", 0)]
    for mi in range(nmodels):
        code = F.ALL_TYPES[mi % 13]
        model = F.gen_model(rng, code, nrecs=rng.randint(1, 3), null_prob=0.0, max_parts=2, max_pts=3, allow_degenerate=False)
        model.pop("trailing", None)
        shp, shx = refesri.encode_shp(model), refesri.encode_shx(model)
        want = [refesri.denote(r["shape"]) for r in model["records"]]
        ends = record_ends(model)
        step = 1 if (tier == "thorough" or len(shp) < 400) else 2
        # --- truncation of the .shp at every length, with and without index
        for l in range(0, len(shp), step):
            cases.append(C.read_case(-1 if l % 3 else code, shp[:l], None, [("it", -1)]))
            meta.append(("trunc_shp", want, ends, l, False))
            if l % 2 == 0:
                cases.append(C.read_case(-1, shp[:l], shx, OPSI))
                meta.append(("trunc_shp_idx", want, ends, l, True))
        # --- the same truncations as files on disk without a .shx beside them, read through the path-based one-liners
        # (at the end of the header, at every record boundary, inside records): same answers as from memory
        if mi < (13 if tier == "thorough" else 6):
            import pathio
            cutset = sorted(set([100] + ends[:-1] + [e - 3 for e in ends] + [e + 5 for e in ends[:-1]]))
            for l in cutset:
                if 0 < l < len(shp):
                    pmsg = pathio.check(rep, dev, "c13", "t%d_%d" % (mi, l), shp[:l], None, code,
                                        "file on disk cut at byte %d (record ends at %r), no index" % (l, ends))
                    path_cuts[0] += 1
                    if pmsg and not path_fail:
                        path_fail.append(pmsg)
            # ... and the complete .shp beside a truncated .shx (cut inside its header, inside and between entries): the
            # path-based readers must report the damaged index as the in-memory reader does, not ignore it
            for l in sorted({0, 50, 99, 100, 104, len(shx) - 8, len(shx) - 1}):
                if 0 <= l < len(shx):
                    pmsg = pathio.check(rep, dev, "c13", "x%d_%d" % (mi, l), shp, shx[:l], code,
                                        "complete .shp beside a .shx cut at byte %d of %d on disk" % (l, len(shx)))
                    path_cuts[0] += 1
                    if pmsg and not path_fail:
                        path_fail.append(pmsg)
        # --- truncation of the .shx
        for l in range(0, len(shx), 1 if tier == "thorough" else 3):
            cases.append(C.read_case(-1, shp, shx[:l], OPSI))
            meta.append(("trunc_shx", want, ends, len(shp), True))
        # --- a source failing its k-th read/seek, one-shot and persistent, every k of a full traversal
        for with_idx in (False, True):
            ops = OPSI if with_idx else [("it", -1)]
            k = 0
            while k < 400:
                c = C.read_case(-1, shp, shx if with_idx else None, ops, fault=(k, k % 2))
                cases.append(c)
                meta.append(("fault", want, ends, len(shp), with_idx, k, k % 2))
                k += 1 if (tier == "thorough" or k < 40) else 3
                if k > 14 + 12 * sum(2 + len(r["shape"].get("pts", [])) * 4 + len(r["shape"].get("offsets", [])) * 2
                                     for r in model["records"]):
                    break
        # --- short reads: chunk schedules from one byte per call upward
        for sched in ([1], [2], [3], [7], [1, 5, 2], [rng.randint(1, 9) for _ in range(5)], [11], [64]):
            cases.append(C.read_case(-1, shp, None, [("it", -1)], sched=sched))
            meta.append(("short", want, ends, len(shp), False))
            cases.append(C.read_case(code, shp, shx, OPSI, sched=sched))
            meta.append(("short", want, ends, len(shp), True))
    rep.cov["rule"] = ("%d reference files (13 types, 1-3 records, M blocks present or absent): every truncation length of the "
                       ".shp (with and without index) and of the .shx; a source failing its k-th read or seek for every k of a "
                       "full traversal, one-shot and persistent; short-read schedules 1, 2, 3, 7, 11, 64 and mixed bytes per "
                       "read call; all compared with the model (the model's reads are not chunked: equal results = chunking "
                       "changes nothing); oracle: no panic, Ok items are the originals at their positions, records wholly "
                       "inside are returned, the cut record is Io(UnexpectedEof), a reached fault surfaces as the injected "
                       "error; non-trivial = distinct case" % nmodels)
    impl = stages.correspondence(rep, "read", dev, cases, "read(truncated/faulty/short-reading sources)")
    nfail = 0
    import pathio
    pathio.cleanup("c13")
    rep.cov["truncated_files_read_by_path"] = path_cuts[0]
    if path_fail:
        nfail += 1
        rep.violation({"kind": "oracle", "what": path_fail[0], "case_kind": "path"})
    seen_fault_err = 0
    for c, m, r in zip(cases, meta, impl):
        kind, want, ends, l, with_idx = m[:5]
        rep.dist(kind)
        want_items = want
        msg = None
        if r in ([2], [-2], [-5]):
            msg = "%s: panic or dead process" % kind
        else:
            ops = OPSI if with_idx else [("it", -1)]
            rd = C.parse_read(r, ops)
            if "open_err" in rd:
                if kind == "trunc_shp" and l >= 100:
                    msg = "open failed although the header is complete"
                elif kind in ("trunc_shp", "trunc_shp_idx") and l < 100 and rd["open_err"][0] != 1:
                    msg = "opening a file cut inside the header reports %r, not UnexpectedEof" % rd["open_err"]
                elif kind == "short":
                    msg = "open failed under short reads"
                elif kind == "fault" and rd["open_err"][0] == 3:
                    seen_fault_err += 1
            else:
                items = rd["ops"][0]["items"]
                if kind == "short":
                    if not rd["ops"][0]["ended"] or [tuple(i) for i in items] != [("ok", list(w)) for w in want_items] and \
                       [(i[0], list(i[1])) for i in items if i[0] == "ok"] != [("ok", list(w)) for w in want_items]:
                        msg = "short reads change the result"
                elif kind == "fault":
                    for i, it in enumerate(items):
                        if it[0] == "panic":
                            msg = "panic item under a failing source"
                        if it[0] == "ok" and (i >= len(want_items) or list(it[1]) != list(want_items[i])):
                            msg = "failing source: item %d is not the original shape" % i
                        if it[0] == "err" and it[1] == 3:
                            seen_fault_err += 1
                else:
                    msg = check_items(items, want_items, ends, l, with_idx, kind)
        if msg:
            nfail += 1
            if nfail == 1:
                rep.violation({"kind": "oracle", "what": msg, "case_kind": "read", "case": c, "cut_or_k": m[3:], "impl_result": r[:80]})
    rep.cov["injected_errors_surfaced"] = seen_fault_err
    rep.sample({"kind": meta[10][0], "cut": meta[10][3], "case_prefix": cases[10][:14]})
    rep.cov["oracle"] = {"checked": len(cases), "failing": nfail}
    rep.assumptions += ["std's read_exact loop and the Interrupted handling are modelled (read_exact_loop in Model/Prog.v), "
                        "not verified; the harness device returns short reads per schedule"]
