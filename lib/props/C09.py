"""C09 — Any interleaving of writes and finalize calls yields the same files as drop."""
import itertools

import cases as C
import refesri
import shapes
import sfv
import stages


def flush_states(log):
    """Buffer contents right after every flush operation of the log."""
    out = []
    for i, op in enumerate(log):
        if op[0] == "fl":
            out.append(C.apply_log(log[:i + 1]))
    return out


def oracle_history(h, res, base):
    """h: list of 'a' | 'b' | 'f'; res/base: parsed whist results of the history
    and of its writes-only version ended by drop."""
    if "special" in res or "special" in base:
        return "writer panicked or constructor refused"
    if any(r != ("ok",) for r in res["results"]):
        return "a call failed: %r" % (res["results"],)
    for dev in ("shp", "shx"):
        if res[dev]["buf"] != base[dev]["buf"]:
            return "%s bytes differ from those of the same writes followed by a plain drop" % dev
    # every finalize that had something to commit leaves a complete, flushed file
    states = flush_states(res["shp"]["log"])
    writes, dirty, expect = 0, True, []
    for c in h["calls"] + (["f"] if h["ending"] == 1 else []) + ["f"]:       # drop = finalize
        if c == "f":
            if dirty:
                expect.append(writes)
            dirty = False
        else:
            writes += 1
            dirty = True
    if h["ending"] == 2:
        expect = [writes]
    if len(states) != len(expect):
        return "%d flushes on the .shp, %d finalize calls had something to commit" % (len(states), len(expect))
    for buf, n in zip(states, expect):
        try:
            m = refesri.strict_decode_shp(buf, require_numbering=True)
        except refesri.Malformed as e:
            return "file left by a finalize is not a complete shapefile: %s" % e
        if len(m["records"]) != n:
            return "file left by a finalize holds %d records, %d were written" % (len(m["records"]), n)
    if res["shp"]["log"] and res["shp"]["log"][-1] != ("fl",):
        return "last operation on the .shp is not a flush"
    return None


def run(rep, tier, rng):
    stages.proof_stage(rep, "C09")
    dev = sfv.build_harness("dev")
    L = 5 if tier == "thorough" else 3
    hists = [list(t) for k in range(0, L + 1) for t in itertools.product("abf", repeat=k)]
    extra = 300 if tier == "thorough" else 40
    for _ in range(extra):
        hists.append([rng.choice("abf") for _ in range(rng.randint(L + 1, L + 6))])
    cases, meta = [], []
    for code in shapes.ALL_CODES:
        a = shapes.gen_ctor(rng, code, "mixed")
        b = shapes.gen_ctor(rng, code, "mixed")
        for hs in (True, False):
            for h in hists:
                wire = [("f",) if c == "f" else ("w", a if c == "a" else b) for c in h]
                writes = [c for c in wire if c[0] == "w"]
                for ending in (0, 1, 2, 3, 100):
                    if ending == 2 and any(c == "f" for c in h):
                        continue
                    if tier != "thorough" and rng.random() < 0.5 and len(h) == L:
                        continue
                    wire_ending = ending
                    if ending == 100 and (len(h) > 3 or rng.random() < 0.5):
                        continue                           # 100: the caller panics, the writer is dropped by the unwinding
                    if ending == 3:
                        # the trailing writes (some of them) are handed together to the bulk helper `write_shapes`
                        # after the calls before them were made one by one
                        t = 0
                        while t < len(h) and h[len(h) - 1 - t] != "f":
                            t += 1
                        k = rng.randint(1, t) if t else 0
                        if k == len(h):
                            continue                       # that is ending 2
                        wire_ending = 3 + k
                    cases.append(C.whist_case(hs, wire_ending, wire))
                    meta.append({"calls": h, "ending": ending, "hs": hs, "code": code,
                                 "base": C.whist_case(hs, 0, writes)})
    base_cases = {}
    for m in meta:
        base_cases.setdefault(tuple(m["base"]), None)
    rep.cov["rule"] = ("exhaustive histories over {write a, write b, finalize}^<=%d plus %d longer random ones, x 13 types x "
                       "{with shx, without} x endings {drop, finalize+drop, write_shapes of everything, write_shapes of the last k writes after single calls, drop by an unwinding panic of the caller}; a and b random shapes of the type "
                       "(NaN in Z/M, infinities, sentinel-adjacent values included); bytes and operation traces compared with "
                       "the model; oracle: bytes == bytes of the writes-only history ended by drop, every committing finalize "
                       "leaves a strictly decodable complete file with the right record count, clean finalize issues no "
                       "operation; plus write, finalize failing once at each of its operations on either destination, then finalize "
                       "again / twice / drop: same files; plus path-created files (stale longer files, dotted and upper-case "
                       "names); non-trivial = distinct case" % (L, extra))
    rep.sample({"history": "".join(meta[5]["calls"]), "ending": meta[5]["ending"], "case_prefix": cases[5][:12]})
    impl = stages.correspondence(rep, "whist", dev, cases, "whist")
    bl = list(base_cases)
    bimpl = sfv.run_impl(dev, [list(b) for b in bl])
    bres = dict(zip(bl, [C.parse_whist(r) for r in bimpl]))
    nfail = 0
    for c, m, r in zip(cases, meta, impl):
        rep.dist("len_%d" % len(m["calls"]))
        msg = oracle_history(m, C.parse_whist(r), bres[tuple(m["base"])])
        if msg:
            nfail += 1
            if nfail == 1:
                rep.violation({"kind": "oracle", "what": msg, "case_kind": "whist", "case": c, "history": "".join(m["calls"]),
                               "ending": m["ending"], "impl_result": r})
    # ---- a finalize that fails part-way (one-shot fault at any of its operations on either destination) followed by
    # another finalize with no write in between: the files are still those of the writes followed by a plain drop
    fcases, fmeta = [], []
    fcodes = shapes.ALL_CODES if tier == "thorough" else [shapes.ALL_CODES[i] for i in (1, 6, 9, 12)]
    for code in fcodes:
        a = shapes.gen_ctor(rng, code, "small")
        b0 = C.parse_whist(sfv.run_impl(dev, [C.whist_case(True, 0, [("w", a)])])[0])
        if "special" in b0:
            continue
        for dest, n0 in ((1, b0["shp"]["ops"] - 16), (2, b0["shx"]["ops"] - 16)):
            for j in range(16):
                for tail in ([("f",)], [("f",), ("f",)], []):
                    fcases.append(C.whist_case(True, 0, [("w", a), ("f",)] + tail, fault=(dest, n0 + j, 0)))
                    fmeta.append((code, dest, j, b0))
    fimpl = stages.correspondence(rep, "whist_fault", dev, fcases, "whist(finalize failing once, then finalize / drop)")
    for c, (code, dest, j, b0), r in zip(fcases, fmeta, fimpl):
        res = C.parse_whist(r)
        if "special" in res:
            msg = "writer panicked"
        elif res["shp"]["buf"] != b0["shp"]["buf"] or res["shx"]["buf"] != b0["shx"]["buf"]:
            msg = ("after a finalize that failed at its operation %d on destination %d and the following finalize / drop, the "
                   "files differ from those of the write followed by a plain drop" % (j, dest))
        else:
            msg = None
        if msg:
            nfail += 1
            if nfail == 1:
                rep.violation({"kind": "oracle", "what": msg, "case_kind": "whist", "case": c})
    rep.cov["failed_finalize_histories"] = len(fcases)
    # files created by path: a path that already holds longer files, dotted and upper-case names
    pfiles = []
    for code in shapes.ALL_CODES[:8 if tier != "thorough" else 13]:
        pf = {"code": code, "specs": [shapes.gen_ctor(rng, code, "small") for _ in range(2)]}
        pf["written"] = C.parse_whist(sfv.run_impl(dev, [C.whist_case(True, 0, [("w", sp) for sp in pf["specs"]])])[0])
        pfiles.append(pf)
    import pipeline as P
    P.path_situations(rep, pfiles, "c09", with_reads=False)
    rep.cov["oracle"] = {"histories_checked": len(cases) + len(fcases), "failing": nfail}
    rep.assumptions += ["destinations are Cursor<Vec<u8>>-like (write at position, zero fill, seek Start/End): the harness device"]
