"""C03 — Reader decodes every spec-conformant .shp, including foreign layouts."""
import cases as C
import files as F
import refesri
import sfv
import shapes
import stages


def expected(model, ops_kind):
    items = [refesri.denote(r["shape"]) for r in model["records"]]
    return items


def oracle_for(model, req, ops):
    exp_items = expected(model, None)
    total = 100 + sum(len(refesri.encode_record(r["num"], r["shape"])) for r in model["records"])
    exp_hdr = F.header_render(model, total // 2)

    def oracle(case, r):
        rd = C.parse_read(r, ops)
        if rd.get("panic") or "open_err" in rd:
            return "conformant file: open failed or panicked: %r" % (rd,)
        if rd["header"] != exp_hdr:
            return "header not returned as stored: %r vs %r" % (rd["header"], exp_hdr)
        it = rd["ops"][0]
        if not it["ended"]:
            return "iteration did not end"
        got = it["items"]
        if req != -1:
            # typed reader: stops being comparable at the first record of another type (null)
            want = []
            for r0, e in zip(model["records"], exp_items):
                if r0["shape"]["code"] != req:
                    want.append(("err", 8, req, r0["shape"]["code"]))
                    break
                want.append(("ok", e))
            got = got[:len(want)]
        else:
            want = [("ok", e) for e in exp_items]
        if len(got) != len(want):
            return "%d items, %d records" % (len(got), len(want))
        for i, (g, w) in enumerate(zip(got, want)):
            if tuple(g) != tuple(w) and not (g[0] == "ok" and w[0] == "ok" and list(g[1]) == list(w[1])):
                return "record %d decoded as %r, encodes %r" % (i, g, w)
        return None
    return oracle


def small_scope(rng):
    """Every kind x every optional-M choice x part structures up to 3 parts x
    0..2 points (exhaustive), coordinates small integers."""
    out = []
    import itertools
    g = lambda: 0x3FF0000000000000 + rng.randint(0, 7) * (1 << 48)
    for code in F.ALL_TYPES:
        if code in refesri.POINT:
            variants = [None, 1] if code == 11 else [1]
            for m in variants:
                rec = {"code": code, "x": g(), "y": g()}
                if code == 11:
                    rec["z"] = g()
                    rec["m"] = g() if m else None
                if code == 21:
                    rec["m"] = g()
                out.append((code, rec))
            continue
        structures = [[n] for n in range(0, 4)] if code in refesri.MULTIPOINT else \
            [list(t) for k in range(0, 4) for t in itertools.product(range(0, 3), repeat=k)]
        for lens in structures:
            for with_m in ([True, False] if code in refesri.HAS_M else [False]):
                n = sum(lens)
                rec = {"code": code, "box": [g(), g(), g(), g()], "pts": [[g(), g()] for _ in range(n)]}
                if code not in refesri.MULTIPOINT:
                    offs, acc = [], 0
                    for l in lens:
                        offs.append(acc)
                        acc += l
                    rec["offsets"] = offs
                    if code == 31:
                        rec["kinds"] = [rng.randint(0, 5) for _ in lens]
                if code in refesri.HAS_Z:
                    rec["zrange"], rec["zs"] = [g(), g()], [g() for _ in range(n)]
                if code in refesri.HAS_M:
                    rec["mrange"], rec["ms"] = ([g(), g()], [g() for _ in range(n)]) if with_m else (None, None)
                out.append((code, rec))
    return out


def run(rep, tier, rng):
    stages.proof_stage(rep, "C03")
    dev = sfv.build_harness("dev")
    nrand = 1500 if tier == "thorough" else 250
    models = [F.gen_model(rng) for _ in range(nrand)]
    scope = small_scope(rng)
    if tier != "thorough":
        scope = [s for i, s in enumerate(scope) if i % 3 == rng.randint(0, 2) or s[0] in refesri.POINT]
    for code, rec in scope:
        models.append({"type": code, "box": [0] * 8, "records": [{"num": 1, "shape": {"code": 0}}, {"num": 2, "shape": rec}]})
    rep.cov["rule"] = ("%d random conformant files from the independent reference encoder (14 type codes, 0-5 records, null "
                       "records, per-record optional M, PointZ with/without M, 0/1-vertex parts, 0 parts, arbitrary boxes and "
                       "record numbers, trailing bytes) plus %d files of the exhaustive small scope (every kind x optional-M x "
                       "part structures up to 3 parts x 0..2 points); each read generically and with the typed reader of the "
                       "file's type; plus 6 files whose first record has more than 1024 parts / rings / patches / points; oracle: "
                       "result == independent Python denotation; a sample of the files also placed on disk and read through "
                       "read_shapes / read_shapes_as / ShapeReader::from_path (with and without .shx, trailing bytes): same "
                       "answers as from memory; non-trivial = distinct case" % (nrand, len(scope)))
    cases, oracles = [], []
    for m in models:
        shp = refesri.encode_shp(m)
        # the independent decoder must accept what the independent encoder produced (self-check of the reference)
        dec = refesri.strict_decode_shp(shp, allow_trailing=True)
        assert [r["shape"] for r in dec["records"]] == [r["shape"] for r in m["records"]], "reference codec self-check"
        ops = [("it", -1)]
        for req in ([-1] if m["type"] == 0 else [-1, m["type"]]):
            cases.append(C.read_case(req, shp, None, ops))
            oracles.append(oracle_for(m, req, ops))
        rep.dist("type_%d" % m["type"])
        rep.dist("records", len(m["records"]))
        rep.dist("null_records", sum(1 for r in m["records"] if r["shape"]["code"] == 0))
        rep.dist("m_block_absent", sum(1 for r in m["records"] if r["shape"].get("ms", 1) is None or r["shape"].get("m", 1) is None))
        rep.dist("with_trailing_bytes", 1 if m.get("trailing") else 0)
    table = dict((id(c), o) for c, o in zip(cases, oracles))
    rep.sample({"case_kind": "read", "shp_bytes_hex": refesri.encode_shp(models[0]).hex()[:400], "req": -1})
    stages.correspondence(rep, "read", dev, cases, "read(reference files)",
                          oracle=lambda c, r: table[id(c)](c, r))
    # ---- with the reference index: one random access first, then the whole iteration (or the bulk read) on the same
    # reader — what record i decodes to does not depend on which record was fetched before
    icases, imeta = [], []
    for m in models:
        n = len(m["records"])
        if n < 2 or len(icases) >= (400 if tier == "thorough" else 80):
            continue
        shp, shx = refesri.encode_shp(m), refesri.encode_shx(m)
        for k in sorted({0, n - 1, rng.randrange(n)}):
            ops = [("nth", k), ("it", -1)] if rng.random() < 0.7 else [("nth", k), ("readall",)]
            icases.append(C.read_case(-1, shp, shx, ops))
            imeta.append((m, k, ops))
    iimpl = stages.correspondence(rep, "read_idx", dev, icases, "read(reference files with index, random access then iteration)")
    for c, (m, k, ops), r in zip(icases, imeta, iimpl):
        rd = C.parse_read(r, ops)
        exp = [refesri.denote(rec["shape"]) for rec in m["records"]]
        msg = None
        if rd.get("panic") or "open_err" in rd:
            msg = "conformant file with its index: open failed or panicked: %r" % (rd,)
        else:
            first = rd["ops"][0]["nth"]
            if first is None or first[0] != "ok" or list(first[1]) != list(exp[k]):
                msg = "read_nth_shape(%d) of a conformant file returned %r" % (k, first)
            elif "items" in rd["ops"][1]:
                got = [list(it[1]) if it[0] == "ok" else it for it in rd["ops"][1]["items"]]
                if got != [list(e) for e in exp]:
                    msg = "after read_nth_shape(%d) the iteration over a conformant file does not decode its %d records as they encode" % (k, len(exp))
            else:
                al = rd["ops"][1]["all"]
                if al[0] != "ok" or [list(v) for v in al[1]] != [list(e) for e in exp]:
                    msg = "after read_nth_shape(%d) the bulk read of a conformant file does not return its %d records as they encode" % (k, len(exp))
        if msg:
            rep.violation({"kind": "oracle", "what": msg, "case_kind": "read", "case": c})
            break
    rep.cov["random_access_then_iteration_cases"] = len(icases)
    # counts beyond the reader's pre-sizing cap (1024): parts, patches, rings, points; each followed by a small record
    # (a reader that loses its place in the large one misreads the next); model too in the thorough tier
    bigs = []
    # ... and vertex counts at and around powers of two (natural block sizes of a reader), per part and per multipoint
    pow2 = [(3, [64, 2]), (13, [192]), (8, [128]), (5, [128, 3]), (3, [63, 65, 1, 0, 127, 200, 2]), (28, [256]), (15, [32, 64, 33]),
            (31, [16, 512]), (23, [1024]), (8, [1024]), (18, [64])]
    if tier != "thorough":
        pow2 = pow2[:3] + rng.sample(pow2[3:], 4)
    for code, lens in [(31, [1] * 1030), (3, [2] * 1030), (5, [1] * 1026), (8, None), (13, [2] * 1100), (25, [3] * 1025)] + pow2:
        if code in refesri.MULTIPOINT:
            rec = {"code": code, "box": [0] * 4, "pts": [[shapes.f2b(float(i)), shapes.f2b(1.0)] for i in range(lens[0] if lens else 1100)]}
            if code in refesri.HAS_Z:
                rec["zrange"], rec["zs"] = [0, 0], [shapes.f2b(float(i)) for i in range(len(rec["pts"]))]
            if code in refesri.HAS_M:
                rec["mrange"], rec["ms"] = (None, None) if code == 18 else ([0, 0], [shapes.f2b(float(-i)) for i in range(len(rec["pts"]))])
        else:
            rec = F.gen_rec(rng, code, "finite", lens=lens)
        m = {"type": code, "box": [0] * 8, "records": [{"num": 1, "shape": rec}, {"num": 2, "shape": F.gen_rec(rng, code, "finite", lens=[2]) if code not in refesri.MULTIPOINT else F.gen_rec(rng, code, "finite", allow_degenerate=False)}]}
        bigs.append(m)
    bcases, boracles = [], []
    for m in bigs:
        shp = refesri.encode_shp(m)
        for req in (-1, m["type"]):
            bcases.append(C.read_case(req, shp, None, [("it", -1)]))
            boracles.append(oracle_for(m, req, [("it", -1)]))
    btable = dict((id(c), o) for c, o in zip(bcases, boracles))
    stages.correspondence(rep, "read_big", dev, bcases, "read(more than 1024 parts / patches / points)",
                          oracle=lambda c, r: btable[id(c)](c, r), model=(tier == "thorough"))
    # ---- the same kind of files on disk, read through the path-based one-liners, without and with an index beside
    # them (trailing bytes after the declared length included): same answers as from memory
    import pathio
    nfail_p = 0
    for mi, m in enumerate(models[: (60 if tier == "thorough" else 24)]):
        shp = refesri.encode_shp(m)
        if mi % 3 == 0 and not m.get("trailing"):
            shp += bytes(rng.getrandbits(8) for _ in range(rng.randint(1, 40)))
        shx = refesri.encode_shx(m) if mi % 2 else None
        req = m["type"] if m["type"] != 0 else -1
        msg = pathio.check(rep, dev, "c03", "r%d" % mi, shp, shx, req,
                           "conformant file on disk (%s index%s)" % ("with" if shx else "without", ", trailing bytes" if len(shp) > 100 + sum(len(refesri.encode_record(r["num"], r["shape"])) for r in m["records"]) else ""))
        if msg:
            nfail_p += 1
            if nfail_p == 1:
                rep.violation({"kind": "oracle", "what": msg, "case_kind": "path", "shp_hex": shp.hex()[:600]})
    # long conformant files on disk (40-100 KiB, hundreds of records of varying sizes): the path-based readers go
    # through std's 8 KiB buffered reader, and every kind of field — record header, type code, counts, part offsets,
    # coordinates — straddles one of its refills somewhere
    longs = [(1, 900, None), (11, 1700, None), (3, 300, [2, 2, 3]), (25, 400, [4, 4, 4, 4]), (31, 250, [3, 3]), (8, 500, None)]
    for li, (code, nrecs, lens) in enumerate(longs if tier == "thorough" else longs[:4]):
        recs = []
        for i in range(nrecs):
            if code in refesri.POINT:
                rec = F.gen_rec(rng, code, "finite")
                if code == 11 and i % 3:
                    rec["m"] = None                       # PointZ without its measure: records of two sizes
            elif code in refesri.MULTIPOINT:
                rec = {"code": code, "box": [0] * 4, "pts": [[shapes.f2b(float(i)), shapes.f2b(float(j))] for j in range(1 + i % 4)]}
            else:
                rec = F.gen_rec(rng, code, "finite", lens=[k + (i + j) % 2 for j, k in enumerate(lens)])
            recs.append({"num": i + 1, "shape": rec})
        m = {"type": code, "box": [0] * 8, "records": recs}
        shp, shx = refesri.encode_shp(m), refesri.encode_shx(m)
        for with_idx in (True, False):
            msg = pathio.check(rep, dev, "c03", "long%d%s" % (li, "i" if with_idx else ""), shp, shx if with_idx else None, code,
                               "long conformant file (%d records of type %d, %d bytes) on disk, %s index" % (nrecs, code, len(shp), "with" if with_idx else "without"))
            if msg:
                nfail_p += 1
                if nfail_p == 1:
                    rep.violation({"kind": "oracle", "what": msg, "case_kind": "path"})
        # and from a source that hands out a few bytes per read call (in memory), with the independent denotation as oracle
        if li < 2:
            small = {"type": code, "box": [0] * 8, "records": recs[:5]}
            for sched in ([6], [3], [7, 1, 5]):
                sshp = refesri.encode_shp(small)
                r = sfv.run_impl(dev, [C.read_case(-1, sshp, None, [("it", -1)], sched=sched)])[0]
                msg = oracle_for(small, -1, [("it", -1)])(None, r)
                rep.count_case((code, tuple(sched), tuple(r[:8])))
                if msg:
                    nfail_p += 1
                    rep.violation({"kind": "oracle", "what": "source delivering %r bytes per read call: %s" % (sched, msg), "case_kind": "read"})
    pathio.cleanup("c03")
    rep.cov["long_files_read_by_path"] = len(longs if tier == "thorough" else longs[:4])
    rep.cov["files_read_by_path"] = (60 if tier == "thorough" else 24)
    rep.assumptions += ["the Coq transcription of the whitepaper (Spec/Esri.v) is trusted; it is cross-checked by the fact that "
                        "model reader, real reader and the Python denotation agree on files produced by the independent Python encoder",
                        "polygon ring roles: IEEE double shoelace sign (Flocq in the model, CPython floats in the oracle)"]
