"""Write-then-read pipeline shared by C01, C02, C04, C05 (and used by others):
constructor calls -> constructed values (kind 2) -> writer history (kind 4)
-> reader histories on the produced bytes (kind 5).  Every stage goes through
the correspondence check (model vs implementation)."""
from fractions import Fraction

import cases as C
import refesri
import shapes
import stages

NO_DATA = shapes.NO_DATA


def gen_file(rng, code=None, nshapes=None, profile="mixed", max_parts=4, max_pts=6):
    code = rng.choice(shapes.ALL_CODES) if code is None else code
    n = rng.randint(1, 5) if nshapes is None else nshapes
    return {"code": code, "specs": [shapes.gen_ctor(rng, code, profile, True, max_parts, max_pts) for _ in range(n)]}


def finalize_placements(rng, n, rejected=None):
    """Calls with finalize at random places: list of ('w', i) / ('f',); with
    rejected = (probability, spec of a shape of another type) also ('x', spec)
    after the first write (a write the writer must refuse)."""
    calls = []
    for i in range(n):
        if rng.random() < 0.25:
            calls.append(("f",))
        calls.append(("w", i))
        if rejected and rng.random() < rejected[0]:
            calls.append(("x", rejected[1]))
    if rng.random() < 0.3:
        calls.append(("f",))
    return calls


def run_ctor_stage(rep, binary, files, tag, model=True):
    """Adds f['values'] (rendered constructed values) to every file."""
    cs, where = [], []
    for fi, f in enumerate(files):
        for si, spec in enumerate(f["specs"]):
            cs.append([2] + spec)
            where.append((fi, si))
    impl = stages.correspondence(rep, tag + "_ctor", binary, cs, "ctor", model=model)
    for f in files:
        f["values"] = [None] * len(f["specs"])
    for (fi, si), r in zip(where, impl):
        files[fi]["values"][si] = r[1:] if r[0] == 0 else None
    return impl


def run_write_stage(rep, binary, files, tag, has_shx=True, model=True):
    """Adds f['written'] (parsed writer result).  f may carry 'calls' (finalize
    placement, list of ('w', i) / ('f',)) and 'ending'."""
    cs = []
    for f in files:
        calls = f.get("calls") or [("w", i) for i in range(len(f["specs"]))]
        # ("w", i): shape i of the file; ("x", spec): a shape of another type (to be rejected); ("f",): finalize
        wire_calls = [("w", f["specs"][c[1]]) if c[0] == "w" else (("w", c[1]) if c[0] == "x" else c) for c in calls]
        cs.append(C.whist_case(f.get("has_shx", has_shx), f.get("ending", 0), wire_calls))
    impl = stages.correspondence(rep, tag + "_whist", binary, cs, "whist", model=model)
    for f, r in zip(files, impl):
        f["written"] = C.parse_whist(r)
    return impl


ROUTES = [("generic", "seq", True), ("generic", "seq", False), ("typed", "seq", True), ("typed", "seq", False),
          ("generic", "nth", True), ("typed", "nth", True)]


def nth_order(n, key):
    """Order of random accesses on one reader: every index at least once, not
    ascending (reversed or rotated), index 0 once more at the end."""
    order = list(range(n))
    if key % 3 == 0:
        order.reverse()
    elif key % 3 == 1 and n > 1:
        k = 1 + key % (n - 1)
        order = order[k:] + order[:k]
    return order + ([0] if n else [])


def route_ops(route, n, key=0):
    kind, mode, _ = route
    if mode == "seq":
        return [("it", -1)]
    # random access in a non-monotone order, beyond the end, then a full iteration on the same reader
    return [("count",)] + [("nth", i) for i in nth_order(n, key)] + [("nth", n), ("nth", n + 3), ("it", -1)]


def run_read_stage(rep, binary, files, tag, routes=ROUTES, model=True):
    """Adds f['reads'][route] = parsed reader result."""
    cs, where = [], []
    for fi, f in enumerate(files):
        w = f["written"]
        if "special" in w:
            continue
        n = len(f["specs"])
        f["reads"] = {}
        for route in routes:
            kind, mode, with_shx = route
            if with_shx and not f.get("has_shx", True):
                continue
            req = -1 if kind == "generic" else f["code"]
            ops = route_ops(route, n, fi)
            cs.append(C.read_case(req, w["shp"]["buf"], w["shx"]["buf"] if with_shx else None, ops))
            where.append((fi, route, ops))
    impl = stages.correspondence(rep, tag + "_read", binary, cs, "read", model=model)
    for (fi, route, ops), r in zip(where, impl):
        files[fi]["reads"][route] = C.parse_read(r, ops)
        files[fi]["reads"][route]["requested"] = ops
    return impl


# ---------------------------------------------------------------- expectations computed from constructed values
def _f(b):
    return shapes.b2f(b)


def is_nan(b):
    return (b & 0x7FFFFFFFFFFFFFFF) > 0x7FF0000000000000


def _finite(b):
    return (b & 0x7FF0000000000000) != 0x7FF0000000000000


def shoelace_exact(pts):
    """Evaluates the shoelace sum of the ring both exactly (Fraction) and in
    double arithmetic, operation by operation.  Returns (exact sum or None if a
    coordinate is not finite, every floating-point operation was exact)."""
    if not all(_finite(v) for p in pts for v in p[:2]):
        return None, False
    exact, fl, ok = Fraction(0), -0.0, True
    for p, q in zip(pts, pts[1:]):
        x0, y0, x1, y1 = _f(p[0]), _f(p[1]), _f(q[0]), _f(q[1])
        dx, sy = x1 - x0, y1 + y0
        edx, esy = Fraction(x1) - Fraction(x0), Fraction(y1) + Fraction(y0)
        term = dx * sy
        fl = fl + term
        exact += edx * esy
        for got, want in ((dx, edx), (sy, esy), (term, edx * esy), (fl, exact)):
            if got != got or got in (float("inf"), float("-inf")) or Fraction(got) != want:
                ok = False
    return exact, ok


def exact_area2(pts):
    return shoelace_exact(pts)[0]


def role_is_claimed(pts):
    """C01 claims that a ring keeps its role when its exact area is non-zero;
    rings whose double-precision shoelace evaluation is inexact (rounding or
    overflow, forwards or backwards) are the known finding F13."""
    e1, ok1 = shoelace_exact(pts)
    e2, ok2 = shoelace_exact(pts[::-1])
    if e1 is None or e1 == 0:
        return False, "zero or non-finite exact area"
    if not (ok1 and ok2):
        return False, "inexact"
    return True, ""


INEXACT_ROLE_POSITIONS = set()


def on_read(value):
    """What reading back a written value must give (C01): measures of
    multi-vertex shapes normalised; everything else bit-identical.  Returns
    (expected rendering, role_positions) where role_positions are the indices
    in the rendering that hold a polygon ring role whose ring has zero or
    non-finite exact area (either role is acceptable there)."""
    c = shapes.Cur(list(value))
    s = shapes.parse_shape(c)
    code = s["code"]
    if code in shapes.POINT_CODES or code == 0:
        return list(value), set()
    d = shapes.dim_of(code)
    out = [code] + list(s["box"])
    free = set()
    inexact = INEXACT_ROLE_POSITIONS
    inexact.clear()
    if code in shapes.MULTIPOINT_CODES:
        parts, tags = s["parts"], None
    else:
        parts, tags = s["parts"], s.get("tags")
        out.append(len(parts))
    for k, part in enumerate(parts):
        if tags is not None:
            if code in shapes.POLYGON_CODES:
                claimed, why = role_is_claimed([[p[0], p[1]] for p in part])
                if not claimed:
                    free.add(len(out))
                    if why == "inexact":
                        inexact.add(len(out))
            out.append(tags[k])
        out.append(len(part))
        for p in part:
            q = list(p)
            if d >= 3:
                q[-1] = refesri.norm_m(q[-1])
            out += q
    return out, free


def same_modulo(expected, free, got):
    if len(expected) != len(got):
        return False
    return all(a == b or i in free for i, (a, b) in enumerate(zip(expected, got)))


def value_to_rec(value):
    """The reference-model record a written value must be encoded as (C02):
    M block always present, offsets = running sums from 0."""
    c = shapes.Cur(list(value))
    s = shapes.parse_shape(c)
    code = s["code"]
    d = shapes.dim_of(code)
    if code in shapes.POINT_CODES:
        p = s["pt"]
        rec = {"code": code, "x": p[0], "y": p[1]}
        if d == 4:
            rec["z"] = p[2]
        if d >= 3:
            rec["m"] = p[-1]
        return rec
    box = s["box"]
    rec = {"code": code, "box": box[:4]}
    allpts = [p for part in s["parts"] for p in part]
    rec["pts"] = [[p[0], p[1]] for p in allpts]
    if d == 4:
        rec["zrange"] = box[4:6]
        rec["zs"] = [p[2] for p in allpts]
    if d >= 3:
        rec["mrange"] = box[-2:]
        rec["ms"] = [p[-1] for p in allpts]
    if code not in shapes.MULTIPOINT_CODES:
        offs, acc = [], 0
        for part in s["parts"]:
            offs.append(acc)
            acc += len(part)
        rec["offsets"] = offs
        if code == 31:
            rec["kinds"] = list(s["tags"])
    return rec
