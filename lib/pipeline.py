"""Write-then-read pipeline shared by C01, C02, C04, C05 (and used by others):
constructor calls -> constructed values (kind 2) -> writer history (kind 4)
-> reader histories on the produced bytes (kind 5).  Every stage goes through
the correspondence check (model vs implementation)."""
import os
import shutil
import subprocess
from fractions import Fraction

import cases as C
import refesri
import sfv
import shapes
import stages

NO_DATA = shapes.NO_DATA


def gen_file(rng, code=None, nshapes=None, profile="mixed", max_parts=4, max_pts=6):
    code = rng.choice(shapes.ALL_CODES) if code is None else code
    n = rng.randint(1, 5) if nshapes is None else nshapes
    return {"code": code, "specs": [shapes.gen_ctor(rng, code, profile, True, max_parts, max_pts) for _ in range(n)]}


def finalize_placements(rng, n, rejected=None):
    """Calls with finalize at random places: list of ('w', i) / ('f',); with
    rejected = (probability, spec of a shape of another type) also ('x', spec)
    after the first write (a write the writer must refuse)."""
    calls = []
    for i in range(n):
        if rng.random() < 0.25:
            calls.append(("f",))
        calls.append(("w", i))
        if rejected and rng.random() < rejected[0]:
            calls.append(("x", rejected[1]))
    if rng.random() < 0.3:
        calls.append(("f",))
    return calls


def run_ctor_stage(rep, binary, files, tag, model=True):
    """Adds f['values'] (rendered constructed values) to every file."""
    cs, where = [], []
    for fi, f in enumerate(files):
        for si, spec in enumerate(f["specs"]):
            cs.append([2] + spec)
            where.append((fi, si))
    impl = stages.correspondence(rep, tag + "_ctor", binary, cs, "ctor", model=model)
    for f in files:
        f["values"] = [None] * len(f["specs"])
    for (fi, si), r in zip(where, impl):
        files[fi]["values"][si] = r[1:] if r[0] == 0 else None
    return impl


def run_write_stage(rep, binary, files, tag, has_shx=True, model=True):
    """Adds f['written'] (parsed writer result).  f may carry 'calls' (finalize
    placement, list of ('w', i) / ('f',)) and 'ending'."""
    cs = []
    for f in files:
        calls = f.get("calls") or [("w", i) for i in range(len(f["specs"]))]
        # ("w", i): shape i of the file; ("x", spec): a shape of another type (to be rejected); ("f",): finalize
        wire_calls = [("w", f["specs"][c[1]]) if c[0] == "w" else (("w", c[1]) if c[0] == "x" else c) for c in calls]
        cs.append(C.whist_case(f.get("has_shx", has_shx), f.get("ending", 0), wire_calls))
    impl = stages.correspondence(rep, tag + "_whist", binary, cs, "whist", model=model)
    for f, r in zip(files, impl):
        f["written"] = C.parse_whist(r)
    return impl


ROUTES = [("generic", "seq", True), ("generic", "seq", False), ("typed", "seq", True), ("typed", "seq", False),
          ("generic", "nth", True), ("typed", "nth", True)]


def nth_order(n, key):
    """Order of random accesses on one reader: every index at least once, not
    ascending (reversed or rotated), index 0 once more at the end."""
    order = list(range(n))
    if key % 3 == 0:
        order.reverse()
    elif key % 3 == 1 and n > 1:
        k = 1 + key % (n - 1)
        order = order[k:] + order[:k]
    return order + ([0] if n else [])


def route_ops(route, n, key=0):
    kind, mode, _ = route
    if mode == "seq":
        return [("it", -1)]
    # random access in a non-monotone order, beyond the end, then a full iteration on the same reader
    return [("count",)] + [("nth", i) for i in nth_order(n, key)] + [("nth", n), ("nth", n + 3), ("it", -1)]


def run_read_stage(rep, binary, files, tag, routes=ROUTES, model=True):
    """Adds f['reads'][route] = parsed reader result."""
    cs, where = [], []
    for fi, f in enumerate(files):
        w = f["written"]
        if "special" in w:
            continue
        n = len(f["specs"])
        f["reads"] = {}
        for route in routes:
            kind, mode, with_shx = route
            if with_shx and not f.get("has_shx", True):
                continue
            req = -1 if kind == "generic" else f["code"]
            ops = route_ops(route, n, fi)
            cs.append(C.read_case(req, w["shp"]["buf"], w["shx"]["buf"] if with_shx else None, ops))
            where.append((fi, route, ops))
    impl = stages.correspondence(rep, tag + "_read", binary, cs, "read", model=model)
    for (fi, route, ops), r in zip(where, impl):
        files[fi]["reads"][route] = C.parse_read(r, ops)
        files[fi]["reads"][route]["requested"] = ops
    return impl


# ---------------------------------------------------------------- expectations computed from constructed values
def _f(b):
    return shapes.b2f(b)


def is_nan(b):
    return (b & 0x7FFFFFFFFFFFFFFF) > 0x7FF0000000000000


def _finite(b):
    return (b & 0x7FF0000000000000) != 0x7FF0000000000000


def shoelace_exact(pts):
    """Evaluates the shoelace sum of the ring both exactly (Fraction) and in
    double arithmetic, operation by operation.  Returns (exact sum or None if a
    coordinate is not finite, every floating-point operation was exact)."""
    if not all(_finite(v) for p in pts for v in p[:2]):
        return None, False
    exact, fl, ok = Fraction(0), -0.0, True
    for p, q in zip(pts, pts[1:]):
        x0, y0, x1, y1 = _f(p[0]), _f(p[1]), _f(q[0]), _f(q[1])
        dx, sy = x1 - x0, y1 + y0
        edx, esy = Fraction(x1) - Fraction(x0), Fraction(y1) + Fraction(y0)
        term = dx * sy
        fl = fl + term
        exact += edx * esy
        for got, want in ((dx, edx), (sy, esy), (term, edx * esy), (fl, exact)):
            if got != got or got in (float("inf"), float("-inf")) or Fraction(got) != want:
                ok = False
    return exact, ok


def exact_area2(pts):
    return shoelace_exact(pts)[0]


def role_is_claimed(pts):
    """C01 claims that a ring keeps its role when its exact area is non-zero;
    rings whose double-precision shoelace evaluation is inexact (rounding or
    overflow, forwards or backwards) are the known finding F13."""
    e1, ok1 = shoelace_exact(pts)
    e2, ok2 = shoelace_exact(pts[::-1])
    if e1 is None or e1 == 0:
        return False, "zero or non-finite exact area"
    if not (ok1 and ok2):
        return False, "inexact"
    return True, ""


INEXACT_ROLE_POSITIONS = set()


def on_read(value):
    """What reading back a written value must give (C01): measures of
    multi-vertex shapes normalised; everything else bit-identical.  Returns
    (expected rendering, role_positions) where role_positions are the indices
    in the rendering that hold a polygon ring role whose ring has zero or
    non-finite exact area (either role is acceptable there)."""
    c = shapes.Cur(list(value))
    s = shapes.parse_shape(c)
    code = s["code"]
    if code in shapes.POINT_CODES or code == 0:
        return list(value), set()
    d = shapes.dim_of(code)
    out = [code] + list(s["box"])
    free = set()
    inexact = INEXACT_ROLE_POSITIONS
    inexact.clear()
    if code in shapes.MULTIPOINT_CODES:
        parts, tags = s["parts"], None
    else:
        parts, tags = s["parts"], s.get("tags")
        out.append(len(parts))
    for k, part in enumerate(parts):
        if tags is not None:
            if code in shapes.POLYGON_CODES:
                claimed, why = role_is_claimed([[p[0], p[1]] for p in part])
                if not claimed:
                    free.add(len(out))
                    if why == "inexact":
                        inexact.add(len(out))
            out.append(tags[k])
        out.append(len(part))
        for p in part:
            q = list(p)
            if d >= 3:
                q[-1] = refesri.norm_m(q[-1])
            out += q
    return out, free


def same_modulo(expected, free, got):
    if len(expected) != len(got):
        return False
    return all(a == b or i in free for i, (a, b) in enumerate(zip(expected, got)))


def value_to_rec(value):
    """The reference-model record a written value must be encoded as (C02):
    M block always present, offsets = running sums from 0."""
    c = shapes.Cur(list(value))
    s = shapes.parse_shape(c)
    code = s["code"]
    d = shapes.dim_of(code)
    if code in shapes.POINT_CODES:
        p = s["pt"]
        rec = {"code": code, "x": p[0], "y": p[1]}
        if d == 4:
            rec["z"] = p[2]
        if d >= 3:
            rec["m"] = p[-1]
        return rec
    box = s["box"]
    rec = {"code": code, "box": box[:4]}
    allpts = [p for part in s["parts"] for p in part]
    rec["pts"] = [[p[0], p[1]] for p in allpts]
    if d == 4:
        rec["zrange"] = box[4:6]
        rec["zs"] = [p[2] for p in allpts]
    if d >= 3:
        rec["mrange"] = box[-2:]
        rec["ms"] = [p[-1] for p in allpts]
    if code not in shapes.MULTIPOINT_CODES:
        offs, acc = [], 0
        for part in s["parts"]:
            offs.append(acc)
            acc += len(part)
        rec["offsets"] = offs
        if code == 31:
            rec["kinds"] = list(s["tags"])
    return rec


# ---------------------------------------------------------------- files on disk, opened by path
def path_expected(f):
    """Items a path-based read of the file's shapes must return: the in-memory
    generic sequential read with index when the caller ran the read stage, else
    a fresh in-memory read of the same plain history."""
    rd = f.get("reads", {}).get(("generic", "seq", True))
    if rd is not None:
        return rd["ops"][0]["items"]
    rel = os.path.join(sfv.TARGET, "debug", "runner")
    w = C.parse_whist(sfv.run_impl(rel, [C.whist_case(True, 0, [("w", s) for s in f["specs"]])])[0])
    r = sfv.run_impl(rel, [C.read_case(-1, w["shp"]["buf"], w["shx"]["buf"], [("it", -1)])])[0]
    return C.parse_read(r, [("it", -1)])["ops"][0]["items"]


def path_situations(rep, files, tag, with_reads=True):
    """Files on disk opened by path: ShapeWriter::from_path / read_shapes /
    ShapeReader::from_path, through the harness's `path` mode; compared with
    the in-memory results of the same file.  Four situations in turn: a fresh
    path; a name with a second dot next to a sibling shapefile sharing the
    first part of the name (`f3.v2.shp` next to `f3.shp`/`f3.shx`); a path at
    which longer stale files already exist; an upper-case extension."""
    rel = os.path.join(sfv.TARGET, "debug", "runner")
    tmp = os.path.join(sfv.CACHE, "tmp", tag)
    shutil.rmtree(tmp, ignore_errors=True)
    os.makedirs(tmp, exist_ok=True)
    n = 0
    usable = [f for f in files if "special" not in f["written"] and f["specs"]]
    for k, f in enumerate(usable):
        calls = [("w", s) for s in f["specs"]]
        line = " ".join(str(x) for x in C.whist_case(True, 0, calls)[1:])
        # the bytes an in-memory writer produces for the same plain sequence of writes
        mem_plain = C.parse_whist(sfv.run_impl(rel, [C.whist_case(True, 0, calls)])[0])
        situation = k % 4
        d = os.path.join(tmp, "d%d" % k)
        os.makedirs(d, exist_ok=True)
        if situation == 0:
            shp = os.path.join(d, "f%d.shp" % k)
        elif situation == 1:
            shp = os.path.join(d, "f%d.v2.shp" % k)
            other = usable[(k + 1) % len(usable)]["written"]
            open(os.path.join(d, "f%d.shp" % k), "wb").write(other["shp"]["buf"])
            open(os.path.join(d, "f%d.shx" % k), "wb").write(other["shx"]["buf"])
        elif situation == 2:
            shp = os.path.join(d, "f%d.shp" % k)
            stale = bytes((i * 7 + 3) % 256 for i in range(len(mem_plain["shp"]["buf"]) + 4000))
            open(shp, "wb").write(stale)
            open(shp[:-4] + ".shx", "wb").write(stale[:len(mem_plain["shx"]["buf"]) + 400])
        else:
            shp = os.path.join(d, "F%d.SHP" % k)
        label = ["fresh path", "dotted name next to a sibling shapefile", "path holding longer stale files", "upper-case extension"][situation]
        # 1. what is on disk after the writer is dropped
        p = subprocess.run([rel, "path", shp, "keep"], input=line + "\n", stdout=subprocess.PIPE, text=True, timeout=120)
        shx = os.path.splitext(shp)[0] + ".shx"
        if not os.path.exists(shp) or not os.path.exists(shx):
            rep.violation({"kind": "oracle", "what": "path route (%s): the writer did not leave %s and %s" % (label, os.path.basename(shp), os.path.basename(shx)),
                           "file": f["specs"], "code": f["code"]})
            return
        if open(shp, "rb").read() != mem_plain["shp"]["buf"] or open(shx, "rb").read() != mem_plain["shx"]["buf"]:
            rep.violation({"kind": "oracle", "what": "path route (%s): the files on disk differ from what the in-memory writer produces" % label,
                           "file": f["specs"], "code": f["code"]})
            return
        if not with_reads:
            n += 1
            continue
        # 2. the path-based readers (the harness writes the files again, then reads them)
        p = subprocess.run([rel, "path", shp], input=line + "\n", stdout=subprocess.PIPE, text=True, timeout=120)
        out = [l for l in p.stdout.splitlines() if not l.startswith("WARNING")]
        if len(out) != 3:
            rep.violation({"kind": "oracle", "what": "path route (%s) failed: %r" % (label, p.stdout[-500:],), "file": f["specs"]})
            return
        got = [[int(t) for t in l.split()] for l in out]
        mem = path_expected(f)
        want = []
        for it in mem:
            want += [0] + list(it[1])
        for name, g in zip(("read_shapes (with .shx)", "read_shapes_as::<T>", "ShapeReader::from_path without .shx"), got):
            if g != [len(mem)] + want:
                rep.violation({"kind": "oracle", "what": "path route (%s): %s differs from the in-memory route" % (label, name),
                               "file": f["specs"], "code": f["code"]})
                return
        n += 1
    shutil.rmtree(tmp, ignore_errors=True)
    rep.cov["path_route_files"] = n
