#!/usr/bin/env python3
"""Regenerates MANIFEST.json from the table below (kept in one place so that the
claimed set, the levels and the not_applicable list stay consistent)."""
import json
import os

HERE = os.path.dirname(os.path.dirname(os.path.abspath(__file__)))
ALL = ["C%02d" % i for i in range(1, 21)]

COMMON_NOTE = ("Trusted: Coq 8.16.1 kernel (full .vo build, vm_compute, no native_compute); the hand-written Gallina model "
               "(coq/Model) which is tied to /repo only by this run's correspondence check (Rust harness built against the "
               "working tree, dev profile, plus generators); rustc/cargo 1.95; Python driver. The Rust source is modelled, "
               "not verified directly. ")

CLAIMED = {
    "C01": {
        "text": "Theorem C01_roundtrip_seq: for every history of write/finalize calls on well-formed shapes of any of the 13 types "
                "(any number of shapes, parts, part lengths, any 64-bit float patterns) ending in drop or finalize+drop, reading the "
                "produced .shp sequentially with the generic or the typed reader (any trailing bytes) returns the written header "
                "and exactly one item per written shape, in order, equal to on_read of the written value, then ends. on_read is "
                "characterised clause by clause (C01_same_type, C01_xyz_bit_identical, C01_measures + C01_measure_rule, "
                "C01_kinds_and_box, C01_roles): same variant and part structure, X/Y/Z and box bit-identical, measures "
                "bit-identical for points and normalised to NO_DATA exactly when NaN or <= NO_DATA for multi-vertex shapes, "
                "patch kinds kept, ring roles = orientation of the stored vertex order, which for a constructed polygon whose rings "
                "lie in the exact domain of Proofs/F64Exact.v with non-zero exact area is the role it was built with "
                "(C01_roles_kept). Proof: writer invariant (files = "
                "final_shp), encoder = whitepaper layout (EncodeRef), layout conformant (LayoutConf), reader decodes conformant "
                "files (C03), denotation of the stored record = on_read. The routes through the .shx (sequential with index, "
                "random access in non-monotone order followed by iteration) and files on disk opened by path are covered by the "
                "correspondence check and the direct round-trip oracle on the real code.",
        "note": COMMON_NOTE + "Guards: FileFits (file length fits its i32 field) and RecordsFit (each record below 2 GiB: the "
                "reader rejects larger ones). Role-kept-for-non-zero-exact-area is proved on the exact domain (C01_roles_kept) "
                "and also checked by the oracle with exact rational arithmetic on the implementation's output (rings whose "
                "double evaluation is inexact are exempted, see DESIGN F13). on_read mentions the orientation test (Flocq), hence the four classical-reals axioms of the standard "
                "library. Files on disk go through BufWriter/BufReader/File: correspondence only.",
        "technique": "Coq proof (composition of writer invariant, encoder-emits-spec, reader-decodes-spec) + differential "
                     "correspondence on constructor/writer/reader pipelines + round-trip oracle",
        "design_ref": "DESIGN.md section 7 (C01)",
    },
    "C02": {
        "text": "Theorems: C02_record (for every shape value, type code + write_to output = whitepaper content of the record "
                "the value must be stored as), C02_emits_spec (after any history of writes/finalizes of well-formed shapes, "
                "n >= 0, both files are exactly ref_shp / ref_shx of the layout of the accepted shapes: 100-byte header, code "
                "9994, zeroed words, length = real length/2, version 1000, the type, records 1..n without gaps or trailing "
                "bytes, content length = real content length, M block always present, offsets = running sums), C02_conformant "
                "(that file meets the whitepaper's side conditions) and C02_geometry_recovered (what the whitepaper says the "
                "records encode is the geometry handed to the writer). Tie: real bytes = model bytes on generated histories; "
                "oracle: an independent Python strict validator/decoder accepts the real bytes and recovers the geometry; "
                "the Coq and the Python transcription of the whitepaper are compared byte for byte.",
        "note": COMMON_NOTE + "Spec/Esri.v, Spec/Layout.v, Spec/Denote.v are the trusted transcription of the whitepaper, "
                "cross-checked against gen/refesri.py on every run. Guard: FileFits. C02_geometry_recovered mentions the "
                "orientation test (Flocq): four classical-reals stdlib axioms.",
        "technique": "Coq proof (encoder emits the whitepaper layout, by induction over shapes and records; writer invariant) + "
                     "differential correspondence + independent strict decoder as oracle",
        "design_ref": "DESIGN.md section 7 (C02)",
    },
    "C03": {
        "text": "Theorems over all conformant files of the whitepaper layout (Spec/Esri.v: any of the 14 types, any record count, "
                "null records, per-record optional M, PointZ with/without M, any part structure, any stored boxes and record "
                "numbers, any trailing bytes): C03_record (L1, parse of encode, for every record) and C03_decodes_conformant (the "
                "reader returns the header as stored and exactly what every record denotes, in order, then ends), for the "
                "generic and the typed reader, by induction on the records and on the reading program. Tie: files produced by an "
                "independent Python encoder are read by the real reader and by the model; both must equal the independent Python "
                "denotation.",
        "note": COMMON_NOTE + "Spec/Esri.v and Spec/Denote.v (transcription of the whitepaper) are trusted and cross-checked against "
                "gen/refesri.py. The theorems mention the orientation test, whose Flocq definitions depend on the four "
                "classical-reals axioms of the standard library (sig_forall_dec, sig_not_dec, functional_extensionality_dep, classic).",
        "technique": "Coq proof (free-monad reading programs, parse-of-encode lemma L1, induction over records) + differential "
                     "correspondence on reference-encoder files",
        "design_ref": "DESIGN.md section 7 (C03)",
    },
    "C04": {
        "text": "Theorems for every history of writes/finalizes with an index destination (n >= 0 shapes of any sizes): "
                "C04_shx_layout (.shx = the .shp header with length 50+4n, then one big-endian (offset, content length) entry per "
                "record), C04_entries (entry i = (50 + sum_{j<i}(4+len_j), (size_in_bytes+4)/2)), "
                "C04_entries_address_records (at byte 2*offset_i of the .shp the i-th record starts), C04_reader (for EVERY "
                "history of reader calls on the two files - iterate any number of items, random access, seek, count, size hint - "
                "the index parses to n entries and each call returns what the abstract reader over the written shapes returns: "
                "count = n, read_nth i = i-th shape for i < n and nothing beyond, size hint = shapes still to come, iteration as "
                "without index). Tie: writer and reader histories (refused writes in between, measured types without any "
                "measure, iterator adaptors) on generated files incl. one with more than 1024 records; "
                "oracle: independent parse of the real .shx against a walk of the real .shp; path-created pairs compared with the "
                "in-memory bytes.",
        "note": COMMON_NOTE + "Guards FileFits, RecordsFit. Files created by path (BufWriter<File>) are covered by the harness "
                "comparison only.",
        "technique": "Coq proof (writer invariant + refinement of the indexed reader to an abstract reader, for all call "
                     "histories) + differential correspondence + independent index oracle",
        "design_ref": "DESIGN.md section 7 (C04)",
    },
    "C05": {
        "text": "Theorems: C05_shape_box (for every result of a public multi-vertex constructor - multipoint, polyline new/"
                "with_parts, polygon new/with_rings after closing and reordering, multipatch - without NaN coordinates the box "
                "is exact in X, Y and in Z, M where the point type has them: each minimum is bit for bit some vertex's value and "
                "<= every vertex's value, maxima dually, for any number of parts and any position of the extreme vertex; by L5, "
                "a fold of f64_min/f64_max over non-NaN patterns, any order of the comparison arguments), C05_range_is_box, "
                "C05_header_box (after any history with >= 1 accepted shape the header box is, in every dimension the file's "
                "type carries, bit for bit the range of some written shape and bounds every written shape's range; infinite "
                "coordinates included, via the lemma that anything >= +inf is +inf), C05_header_absent (dimensions the type does "
                "not carry are +0.0, n >= 0). Tie: constructed values and written bytes vs the model; oracle recomputes both "
                "boxes from the vertices on special-value-heavy inputs incl. files whose Z or M are all one infinity.",
        "note": COMMON_NOTE + "range_good (64-bit patterns, min <= max per shape) is what C05_shape_box establishes for "
                "constructed shapes; the header theorem is stated on the shapes' ranges (for points with a no-data measure the "
                "range is (0,0), as in the code: no claim there, as the property says). Floats are compared through the "
                "sign-magnitude key on bit patterns (Model/F64.v), validated against hardware comparisons by the correspondence.",
        "technique": "Coq proof (order lemmas on f64 bit patterns, min/max fold lemma L5, writer invariant) + differential "
                     "correspondence + box oracle on special values",
        "design_ref": "DESIGN.md section 7 (C05)",
    },
    "C06": {
        "text": "Theorems: C06_typed_vs_generic (on any source in any state - arbitrary bytes, faults - whenever the generic read "
                "of a record succeeds with x, the typed read as S returns exactly S::try_from(x): x if it is an S, otherwise "
                "MismatchShapeType{requested S, actual type of x}), C06_never_wrong_type, C06_type_identity (Shape::shapetype = "
                "the type of the concrete Rust type, all 14 kinds), C06_dispatch (a record with code c decodes to the variant "
                "whose type has code c), C06_try_from, C06_from_tryfrom (concrete -> generic -> concrete is the identity), "
                "C06_bulk (bulk conversion = all values, or the error of the first foreign one), C06_typed_iteration + "
                "C06_typed_is_generic_converted (whole conformant files of mixed record types read without index by the typed "
                "reader: the records of the type up to the first foreign one, then the mismatch error, then the end = the generic "
                "result converted and cut after the first error; read_as = read followed by the bulk conversion). Tie: exhaustive 13 x 14 "
                "requested/actual matrix through the real TryFrom/From/HasShapeType/convert_shapes_to_vec_of and through real "
                "files of every actual type read as every requested type: by iteration, by typed random access "
                "(read_nth_shape_as) and in bulk (read_as / read), also under a header announcing another type.",
        "note": COMMON_NOTE + "A concrete Rust value of ESRI type t is modelled as a shape with type_of = t, so From is the "
                "identity of the model (the wrapping in the enum variant is checked by the harness rendering).",
        "technique": "Coq proof (typing of reading programs, case analysis over the 14 kinds) + exhaustive differential "
                     "correspondence over the type matrix",
        "design_ref": "DESIGN.md section 7 (C06)",
    },
    "C07": {
        "text": "Theorems over ALL byte strings (below 2^63 bytes), all sources states (any position, any injected fault) and all "
                "histories of reader calls: C07_record (decoding one record never panics), C07_index_parse / C07_open (parsing "
                "the index and opening never panic; a reader opened on bytes satisfies the bounds RB), C07_no_panic (every "
                "history of iterate / random access / seek / count / size hint runs to completion: every call returns a value, "
                "never a panic, and RB holds again - the model carries the machine arithmetic: `as` wraps, checked usize "
                "additions, validated counts and offsets), C07_bounded_index (an iteration with index ends after at most one "
                "item per remaining index entry), C07_bounded_noindex (without index, on a fault-free source: at most "
                "(bytes left)/12 shapes and one error, then the end). Tie: single-field boundary substitution on every 32-bit "
                "field of valid .shp/.shx files, consistent-but-unbacked counts, truncations, extensions, bit flips, random "
                "tails; dev profile (overflow checks, debug assertions) and release; model and code must agree on every value "
                "and error kind.",
        "note": COMMON_NOTE + "Stack exhaustion, allocator abort and wall-clock hang are runtime behaviours the model does not "
                "exhibit; the harness guards them (catch_unwind, watchdog, pull cap). The no-index bound is proved for "
                "fault-free sources (faults: C13).",
        "technique": "Coq proof (panic-freedom as a closure property of reading programs, bounds invariant of the reader state "
                     "machine, termination measures) + differential correspondence on a malformed-input stream, dev and release",
        "design_ref": "DESIGN.md section 7 (C07)",
    },
    "C08": {
        "category": "proof",
        "text": "Theorems over the complete writer/reader with the dbase crate MODELLED as an ordered row store (not verified): "
                "C08_rejected_call (a call that fails for its shape's type changes nothing: writer state, table, both "
                "destinations), C08_history (for every history of calls with acceptable rows, mismatch failures interleaved "
                "anywhere: every call returns Ok or the mismatch error, the table holds exactly the rows of the accepted calls in "
                "order and as many rows as shapes were accepted = .shp records = .shx entries), C08_pairs + C08_pairs_spec (with "
                "one row per record, iteration from an aligned position - fresh, or after seek(k) - yields the pairs (shape i, "
                "row i) in order, then ends). KNOWN FINDING F10: a call whose row the table rejects leaves the shape behind "
                "(C08_row_rejection_witness; listed in known_findings.json, reported as KNOWN-FINDING). Tie: exhaustive bounded "
                "histories incl. both row-rejection kinds through the real Writer, real dbase and real Reader, plus 1030 pairs.",
        "note": COMMON_NOTE + "dbase::TableWriter / Reader / RecordIterator / seek are modelled (Model/Complete.v). Path-created "
                "files (Writer::from_path, Reader::from_path) are not exercised.",
        "technique": "Coq proof (refinement to an abstract list of pairs over a modelled row store) + exhaustive bounded-history "
                     "differential correspondence through the real dbase crate",
        "design_ref": "DESIGN.md section 7 (C08)",
    },
    "C09": {
        "text": "Theorems over every history of calls {write s, finalize} (any shapes of any types, rejected writes included; any "
                "length), with or without index destination, ending in drop or finalize-then-drop: C09_finalize_irrelevant (both "
                "files byte-identical to those of the writes alone followed by a plain drop), C09_files (the files are a function "
                "of the accepted shapes), C09_finalize_complete (after any history finalize succeeds, leaves both destinations "
                "flushed and holding the complete files of the shapes accepted so far), C09_clean_finalize_silent (no I/O when "
                "nothing is new). Induction on the history with the writer invariant WInv (Proofs/WriterInv.v). Tie: exhaustive "
                "histories over {write a, write b, finalize} up to a bound x 13 types x {shx, no shx} x 3 endings, bytes and "
                "complete operation traces compared with the model; oracle on the real bytes.",
        "note": COMMON_NOTE + "Destinations are modelled as Cursor<Vec<u8>> (write at position with zero fill, seek Start/End, flush); "
                "write_shapes-consumption ending is covered by the correspondence and the oracle, the theorem covers drop and "
                "finalize+drop. call_ok restricts histories to shapes whose record length fits the i32 field.",
        "technique": "Coq proof (writer invariant by induction over call histories) + exhaustive bounded-history differential "
                     "correspondence (extracted model and vm_compute) + byte-level oracle",
        "design_ref": "DESIGN.md section 7 (C09)",
    },
    "C10": {
        "text": "Theorems for every reachable writer state (any history) and every offered shape of another type: C10_reject (the "
                "call returns MismatchShapeType naming the file's type and the offered type; writer state and both destinations "
                "- buffers, positions, operation counters, logs - are returned unchanged) and C10_erase (final files equal those "
                "of the history with rejected calls removed). Tie: all 13x12 ordered type pairs, rejected call inserted at every "
                "position of bounded histories; traces must be equal; the rejected call also right after a finalize that "
                "failed and right after a first write that failed part-way (faults injected); the rejected pair through the "
                "complete Writer and the real dbase (its row is not written).",
        "note": COMMON_NOTE + "The complete writer's attribute row (not written for a rejected shape) belongs to C08's model.",
        "technique": "Coq proof (writer invariant, case analysis on the type comparison) + exhaustive type-pair differential "
                     "correspondence + trace oracle",
        "design_ref": "DESIGN.md section 7 (C10)",
    },
    "C11": {
        "text": "Theorems: C11_crash_states (after ANY history of writes and finalizes, every byte-level prefix of the operation "
                "sequence issued to the .shp - cuts inside a write included - leaves H' ++ (byte-prefix of the record stream of "
                "the accepted shapes), H' being 100 bytes, any mixture of an old and a new header, or fewer with nothing after), "
                "C11_read_any_header (for ANY 100 bytes in front - whatever length, type and box they declare - and any "
                "byte-prefix of a stream of conformant records, opening fails or sequential reading yields a prefix of what the "
                "records denote followed by at most one UnexpectedEof), C11_crash_prefix (their composition: on every crash "
                "state of the .shp a reader without index fails to open or yields a prefix of the written shapes - never a "
                "shape that was not written, never a reordered one, never a panic), C11_torn_length_monotone (L4: a length "
                "field torn between an earlier finalize's value and a larger one reads >= the earlier value), C11_torn_header (a header "
                "slot torn at any byte between two headers of the same file is a well-formed header declaring at least the older "
                "length), C11_committed_states + C11_committed_readable (the last clause: after a finalize completed with shapes ss0, "
                "on EVERY later crash state - any byte cut of any later write or finalize - a reader without index opens the file "
                "and yields at least ss0, still a prefix of the shapes written). Readers WITH the index: C11_read_index_truncated (any "
                "index whose entries address records of a file, any truncation of the file: every entry is answered with its "
                "record if wholly retained, else UnexpectedEof), C11_index_from_crash_state (any 100 bytes + any byte-prefix of the "
                "true entries: the index read fails or returns a prefix of the true entries), C11_crash_states_shx (writer side "
                "for the .shx), C11_crash_prefix_index (their composition over independent cuts of both operation sequences: "
                "the reader fails to open or yields a prefix of the written shapes followed by UnexpectedEof errors only). "
                "Tie: the real "
                "traces equal the model's; the real reader is run on EVERY operation-prefix pair sampled across both "
                "destinations and on byte cuts, with and without index, and compared with the model; oracle incl. 'everything "
                "before a completed finalize stays readable'.",
        "note": COMMON_NOTE + "The crash model is the property's own (prefix of issued operations per destination); OS write-back "
                "reordering is outside it. The committed-stays-readable clause is proved for the reader without index (the "
                "property says 'readable from it', the .shp); with the index it is checked by the oracle over all cuts.",
        "technique": "Coq proof (invariant over byte-exploded operation traces of the writer; reader theorem for arbitrary "
                     "headers over record-stream prefixes; composition) + exhaustive cut enumeration through the real reader",
        "design_ref": "DESIGN.md section 7 (C11)",
    },
    "C12": {
        "text": "Theorems: C12_fault_surfaces (a writer call is a straight-line list of destination operations; on destinations "
                "with ANY fault plan - the k-th write, seek or flush of either file, one-shot or persistent - exactly a prefix of "
                "the operations is applied, the call returns Ok exactly when nothing remained and otherwise the injected error "
                "of the first failing operation: from this very call, never a panic, never a success), C12_finalize_any, "
                "C12_retry (a failed finalize leaves the writer dirty and the record regions intact - any partially rewritten "
                "header slot - so calling it again on working destinations completes both files byte for byte as an undisturbed "
                "run), C12_failed_finalize_harmless (after a finalize that failed, once the destinations work, EVERY continuation - "
                "more writes, accepted or rejected, finalizes anywhere, drop - returns what it returns in the undisturbed run and "
                "leaves exactly the undisturbed files; false on the pinned tree, repaired by fix 276a00f), C12_calls_never_panic / "
                "C12_history_never_panics (any state, any fault plans: every call of every history returns Ok, the mismatch "
                "error or the injected error), C12_reachable, C12_drop, "
                "C12_chunking (write_all over short writes delivers exactly the bytes). Tie: for "
                "EVERY k over the operations each workload really issues on each destination, one-shot and persistent, with "
                "heal + retry; short-write schedules incl. the 19/20/21-byte boundary of the header padding.",
        "note": COMMON_NOTE + "write_all and its WriteZero/Interrupted handling are std code, modelled (write_all_loop). A "
                "write_shape that fails loses that shape: the retry claim is for finalize, as the property states.",
        "technique": "Coq proof (prefix semantics of operation lists under arbitrary fault plans; header-slot invariant for "
                     "partially executed finalize) + exhaustive fault-index correspondence + short-write oracle",
        "design_ref": "DESIGN.md section 7 (C12)",
    },
    "C13": {
        "text": "Theorems: C13_truncation (every conformant file of any of the 14 types, cut at ANY length from the end of the "
                "header to one byte before its end, read sequentially: exactly the records wholly inside the retained bytes are "
                "returned, each equal to the original, in order, then the cut record is Io(UnexpectedEof), then the iteration "
                "ends), C13_truncated_header, C13_inside_is_prefix, C13_record_cut (L2), C13_fault / C13_fault_open (a source "
                "failing its k-th operation, one-shot or persistent: a reading program that reaches it returns the injected "
                "error from the call in progress, one that finishes before is unaffected - for every simple program, i.e. the "
                "record, header and index readers), C13_short_reads (std's read_exact loop over any schedule of short reads "
                "returns exactly what an all-at-once source returns). Tie: every truncation length of .shp and .shx, every "
                "fault index k of a full traversal, short-read schedules; model and code must agree on every item.",
        "note": COMMON_NOTE + "read_exact / Interrupted handling of std is modelled (read_exact_loop). The with-index route under "
                "truncation and seeks under faults are covered by the correspondence (exhaustive in cut length and k) and the "
                "oracle; the theorems are stated for the sequential route and for the record/header/index readers.",
        "technique": "Coq proof (truncation and fault-injection lemmas proved once for all simple reading programs by induction "
                     "on the program tree; induction over records) + exhaustive truncation-length / fault-index correspondence",
        "design_ref": "DESIGN.md section 7 (C13)",
    },
    "C14": {
        "text": "Theorem C14_index_governs: for any .shp bytes with a valid header and any index such that each entry's offset "
                "points at the bytes of a conformant record (Indexed: arbitrary filler of any length and content before, between "
                "and after, any physical order, overlaps allowed) and for every history of reader calls, each call returns what "
                "the abstract reader over the records in INDEX order returns; corollaries C14_iteration_is_index_order, "
                "C14_nth_agrees. Tie: reference-encoder files with permuted physical order and filler gaps (odd and even word "
                "counts, random and record-like content), generic and typed, several call histories incl. iterator adaptors "
                "(skip/take), an index of more than 1024 entries, entries pointing beyond the end of the .shp (word offsets up to "
                "i32::MAX); oracle on the real output.",
        "note": COMMON_NOTE + "Indexed includes zlen data < 2^63 (positions fit usize).",
        "technique": "Coq proof (invariant of the indexed reader: source position known or marked unknown; refinement to an "
                     "abstract reader) + differential correspondence on permuted/filler layouts",
        "design_ref": "DESIGN.md section 7 (C14)",
    },
    "C15": {
        "text": "Theorem C15_history: in every reader state satisfying the invariant RInv (in particular every state reached by any "
                "earlier history of calls), any further history of calls {iterate j items, random access, seek, count, size "
                "hint} returns exactly what the abstract reader (records, next position) returns and re-establishes RInv; "
                "C15_nth_and_count_stable, C15_iteration, C15_partial_iteration, C15_positions spell out the abstract reader "
                "(random access independent of position; iteration yields the records from the current position - 0 when fresh "
                "or after a successful random access, min(k,n) after seek(k), where the previous iteration stopped otherwise - "
                "to the last, then ends). Tie: exhaustive bounded call histories (iterate, random access, seek, count, "
                "iterator adaptors skip/take) on files with different-size records, equal-size records and a null-shape "
                "record in the middle.",
        "note": COMMON_NOTE + "The theorem is about ShapeReader with an index; the complete Reader's attribute rows following "
                "the same positions is exercised by the pair histories of C08 (dbase modelled as a row store).",
        "technique": "Coq proof (refinement of the reader state machine to an abstract reader, by induction over call histories) "
                     "+ exhaustive bounded-history differential correspondence",
        "design_ref": "DESIGN.md section 7 (C15)",
    },
    "C16": {
        "category": "proof",
        "text": "Theorems for every ring of every polygon constructor call and every patch of every multipatch constructor call "
                "(any vertex counts, any coordinates): C16_rings / C16_multipatch (what is stored = each input ring closed and "
                "reordered; strips and fans untouched), C16_vertices (a stored ring keeps its role and is the caller's sequence, "
                "closed by one copy of its first vertex if it was open, then kept or reversed as a whole: no vertex lost, "
                "altered or moved - whatever the orientation test answers), C16_closed (first == last in every coordinate the "
                "point type has, X/Y and M/Z, when the first vertex has no NaN), C16_orientation (the orientation test of the "
                "stored order returns the declared role whenever the test tells the closed ring from its mirror image), "
                "C16_idempotent (rebuilding from its own closed, correctly oriented rings is the identity). Orientation by EXACT "
                "signed area is proved on the exact domain (Proofs/F64Exact.v, through Flocq's Bplus/Bminus/Bmult/Bdiv_correct): "
                "when the X/Y of the closed ring are finite doubles z*2^e with a common exponent -500<=e<=480 and integers "
                "|z|<=C with (vertices+1)*4C^2 < 2^53, every IEEE operation of the shoelace evaluation is exact and the test "
                "is the sign of the exact sum (C16_test_is_exact_sign); reversal negates the exact area (C16_area_of_reverse); "
                "the stored ring is clockwise when Outer and counter-clockwise when Inner by exact area, either order for zero "
                "area (C16_orientation_exact); rebuilding a polygon with non-zero exact areas is the identity "
                "(C16_idempotent_exact). Outside that domain (inexact evaluation) the property makes no orientation claim; the "
                "oracle also checks the exact-rational orientation on every generated ring whose double evaluation is exact.",
        "note": COMMON_NOTE + "The orientation test is Flocq's binary64 arithmetic (four classical-reals stdlib axioms). Macros "
                "expand to the same constructors and are not exercised separately.",
        "technique": "Coq proof (list lemmas on closing/reversal, case analysis on the orientation test) + differential "
                     "correspondence on structured rings + exact-rational orientation oracle",
        "design_ref": "DESIGN.md section 7 (C16)",
    },
    "C17": {
        "category": "proof",
        "text": "Theorems for ANY source (any bytes, any declared counts, lengths and offsets, any fault plan), with or without "
                "index, and any history of reader calls: C17_requests, C17_index_requests, C17_record_requests - every "
                "pre-sizing request the reader makes (Vec::with_capacity / vec![x; n], recorded as Reserve nodes of the reading "
                "programs) is at most 32 KiB (min(n, 1024) elements of at most 32 bytes), so a few hundred bytes declaring "
                "billions of points, parts or index entries cannot trigger a giant allocation. PARTIAL: that all other memory "
                "grows only with data actually read (hence peak <= 64 x input + constant) depends on Vec's growth policy and the "
                "allocator: measured, per input, by a counting global allocator in the harness on valid files, every "
                "single-field boundary mutant, consistent-but-unbacked counts, fully backed records with thousands of "
                "descending/empty part offsets, and indexes announcing more entries than they hold (around the 1024 cap).",
        "note": COMMON_NOTE + "The ledger is part of the model (Model/Prog.v, Reserve); that the code has no other pre-sizing "
                "site is checked by the allocator measurement, not by the correspondence of results.",
        "technique": "Coq proof (bounded-reserve closure property of reading programs) + counting-allocator measurement on the "
                     "real reader",
        "design_ref": "DESIGN.md section 7 (C17)",
    },
    "C18": {
        "text": "Theorem for every shape value (unbounded part counts and lengths): bytes emitted by write_to = size_in_bytes, "
                "record content length = (size+4)/2 exactly (C18_size, C18_record_len, C18_record_bytes; closed under the global "
                "context). The model's encoder is tied to the code by running size_in_bytes()/write_to() of the real types on a "
                "dense grid and on random shapes and comparing size, chunk boundaries and bytes with the model.",
        "note": COMMON_NOTE + "usize arithmetic of size_in_bytes is modelled on unbounded integers (a shape whose size overflows "
                "usize cannot exist in memory).",
        "technique": "Coq proof by induction over the shape's lists + differential correspondence check",
        "design_ref": "DESIGN.md section 7 (C18)",
    },
    "C19": {
        "text": "Theorems over all integers (no enumeration): decode c = Some t <-> code t = c, image exactly the 14 ESRI codes, "
                "injectivity, predicates and names equal the ESRI table. The tie to the code is complete for this property: "
                "ShapeType::from is swept over all 2^32 codes in the release build on every run and every decodable code is "
                "compared with the model's row; a few thousand codes also go through the dev-profile harness and the model.",
        "note": COMMON_NOTE + "ESRI table transcribed twice (Coq esri_table, Python ESRI).",
        "technique": "Coq proof by case analysis over Z + exhaustive 2^32 sweep of the implementation",
        "design_ref": "DESIGN.md section 7 (C19)",
    },
    "C20": {
        "category": "proof",
        "text": "Theorems with geo-types / geo-traits MODELLED as list structures (Polygon::new and interiors_push close rings): "
                "C20_to_geo (points, multipoints, polylines of any dimension become Point / MultiPoint / MultiLineString holding "
                "every X/Y pair in order and grouping), C20_polygon_grouping (for closed rings with an outer first, flattening "
                "the produced polygons - exterior then holes - gives back exactly the rings' X/Y sequences and roles in order: "
                "each outer opens a polygon, following inners are its holes), C20_back (2-D point, multipoint, polyline come back "
                "as the original through their constructor), C20_from_geo (MultiPoint, LineString, MultiLineString -> shape -> "
                "geometry is the identity), C20_refusals (null shape, strip/fan multipatch, collection, rect, triangle are error "
                "values), C20_dims (for Point/PointM/PointZ and EVERY measure pattern the dimension count is 2..4 and every index "
                "below it reads the matching field without panic). PARTIAL: polygon -> geometry -> polygon and geometry -> "
                "polygon -> geometry (equal up to ring orientation) are decided by the correspondence and its oracle only. "
                "KNOWN FINDING F12: a one-coordinate LineString panics.",
        "note": COMMON_NOTE + "Separate harness crate harness/runner-geo built with features geo-types, geo-traits (both in the "
                "offline registry).",
        "technique": "Coq proof (list-structure model of geo-types; ring-grouping loop invariant; case analysis for the "
                     "geo-traits view) + differential correspondence on all geometry variants",
        "design_ref": "DESIGN.md section 7 (C20)",
    },
}

PENDING_REASON = "not claimed yet: check under construction (see DESIGN.md section 11, order of work)"


def main():
    m = json.load(open(os.path.join(HERE, "MANIFEST.json")))
    m["checks"] = []
    for pid in ALL:
        if pid not in CLAIMED:
            continue
        c = CLAIMED[pid]
        m["checks"].append({
            "property_id": pid,
            "quick_cmd": "./check %s quick" % pid,
            "thorough_cmd": "./check %s thorough" % pid,
            "evidence_file": "/verif/evidence/%s.json" % pid,
            "replay_cmd_template": "./check %s --replay {path}" % pid,
            "engine": "coq-model+correspondence",
            "level_claimed": {"category": c.get("category", "proof"), "text": c["text"], "design_ref": c["design_ref"]},
            "level_note": c["note"],
            "technique": c["technique"],
        })
    m["not_applicable"] = [{"property_id": p, "reason": NA.get(p, PENDING_REASON)} for p in ALL if p not in CLAIMED]
    for e in m.get("engines", []):
        e["serves_properties"] = [p for p in ALL if p in CLAIMED]
    json.dump(m, open(os.path.join(HERE, "MANIFEST.json"), "w"), indent=1)
    print("claimed:", [p for p in ALL if p in CLAIMED])


NA = {}

if __name__ == "__main__":
    main()
