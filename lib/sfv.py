"""Driver library for the shapefile-rs verification checks.

Everything a check does goes through here: building the Coq development and
the Rust harness from /repo's current tree, running cases on both sides,
auditing the proofs (Print Assumptions, forbidden-command grep), writing
evidence and reporting violations."""
import concurrent.futures as cf
import hashlib
import json
import os
import random
import re
import shutil
import struct
import subprocess
import sys
import time

VERIF = os.path.dirname(os.path.dirname(os.path.abspath(__file__)))
REPO = os.environ.get("SF_REPO", "/repo")
COQ = os.path.join(VERIF, "coq")
CACHE = os.path.join(VERIF, ".cache")
TARGET = os.path.join(CACHE, "target")
HARNESS = os.path.join(VERIF, "harness", "runner")
HARNESS_GEO = os.path.join(VERIF, "harness", "runner-geo")
REPLAYS = os.path.join(VERIF, "replays")
NPROC = 16
# coqc processes contend badly in this VM beyond ~5 (kernel time explodes); measured
MODEL_PAR = 5
COQ_MAKE_J = 6

ENV = dict(os.environ)
ENV.update({"CARGO_NET_OFFLINE": "true", "CARGO_TARGET_DIR": TARGET})


class CheckError(Exception):
    pass


def _clean(s):
    return "\n".join(l for l in s.splitlines() if not l.startswith("WARNING conda"))


def sh(cmd, cwd=None, timeout=3600, env=None, input=None, check=True):
    p = subprocess.run(cmd, cwd=cwd, timeout=timeout, env=env or ENV, input=input,
                       stdout=subprocess.PIPE, stderr=subprocess.PIPE, text=True,
                       shell=isinstance(cmd, str))
    out, err = _clean(p.stdout), _clean(p.stderr)
    if check and p.returncode != 0:
        raise CheckError("command failed (%s): %s\n%s\n%s" % (p.returncode, cmd, out[-4000:], err[-4000:]))
    return p.returncode, out, err


# ---------------------------------------------------------------- floats
def f2b(x):
    return struct.unpack("<Q", struct.pack("<d", x))[0]


def b2f(b):
    return struct.unpack("<d", struct.pack("<Q", b))[0]


# ---------------------------------------------------------------- builds
def coq_makefile():
    vfiles = []
    for d in ("Model", "Spec", "Proofs", "Properties", "Run"):
        for root, _, files in os.walk(os.path.join(COQ, d)):
            for f in files:
                if f.endswith(".v"):
                    vfiles.append(os.path.relpath(os.path.join(root, f), COQ))
    vfiles.sort()
    stamp = os.path.join(CACHE, "vfiles.txt")
    os.makedirs(CACHE, exist_ok=True)
    cur = "\n".join(vfiles)
    old = open(stamp).read() if os.path.exists(stamp) else None
    if old != cur or not os.path.exists(os.path.join(COQ, "Makefile")):
        sh(["coq_makefile", "-f", "_CoqProject", "-o", "Makefile"] + vfiles, cwd=COQ)
        open(stamp, "w").write(cur)
    return vfiles


def build_coq(targets):
    """Full .vo build of the given targets (and their cone).  Returns
    (ok, log)."""
    coq_makefile()
    t0 = time.time()
    rc, out, err = sh(["timeout", "3000", "make", "-j%d" % COQ_MAKE_J, "--no-print-directory"] + targets,
                      cwd=COQ, check=False, timeout=3100)
    return rc == 0, (out + "\n" + err), time.time() - t0


def build_harness(profile="dev", crate=HARNESS, binname="runner"):
    """Rebuilds the harness against /repo's current working tree (cargo's own
    fingerprinting decides what is stale)."""
    lock_src = os.path.join(REPO, "Cargo.lock")
    lock_dst = os.path.join(crate, "Cargo.lock")
    if not os.path.exists(lock_dst):
        shutil.copy(lock_src, lock_dst)
    cmd = ["cargo", "build", "--offline", "--quiet"]
    if profile == "release":
        cmd.append("--release")
    rc, out, err = sh(cmd, cwd=crate, check=False, timeout=1800)
    if rc != 0:
        # one retry with a fresh lock file (the repository's lock may have changed)
        shutil.copy(lock_src, lock_dst)
        rc, out, err = sh(cmd, cwd=crate, check=False, timeout=1800)
    if rc != 0:
        raise CheckError("harness build failed:\n" + err[-6000:])
    return os.path.join(TARGET, "debug" if profile == "dev" else "release", binname)


# ---------------------------------------------------------------- running cases
def _fmt(case):
    return " ".join(str(int(x)) for x in case)


# a chunk of cases takes seconds; a harness process that has not finished after this long is hanging on a case
IMPL_CHUNK_TIMEOUT = 240
DEATHS = [0]         # harness processes that died in this check run (a watchdog in the harness kills slow cases)
HANGS = [0]          # hangs seen in this check run: after the first, chunks get 30 s; after the third, nothing more is run


def _run_impl_chunk(args):
    binary, lines, timeout = args
    if HANGS[0] >= 3:
        return "hung", [], "not run: the implementation already hung three times in this check"
    limit = min(timeout, IMPL_CHUNK_TIMEOUT if HANGS[0] == 0 else 30)
    try:
        p = subprocess.run([binary], input="\n".join(lines) + "\n", stdout=subprocess.PIPE,
                           stderr=subprocess.PIPE, text=True, timeout=limit, env=ENV)
    except subprocess.TimeoutExpired as e:
        HANGS[0] += 1
        out = e.stdout or ""
        if isinstance(out, bytes):
            out = out.decode(errors="replace")
        # only complete lines count: the case after them is the one that never returned
        done = out.split("\n")[:-1]
        outs = [l for l in done if not l.startswith("WARNING conda")]
        return "hung", outs, "no result within %d s" % min(timeout, IMPL_CHUNK_TIMEOUT)
    outs = [l for l in p.stdout.splitlines() if not l.startswith("WARNING conda")]
    return p.returncode, outs, p.stderr[-2000:]


def run_impl(binary, cases, timeout=600, chunk=None):
    """Runs the real library on the cases; returns one result (list of int) per
    case.  A harness process that dies (abort, stack overflow, kill) is
    reported as result [-2] for the case it died on, one that does not return
    within IMPL_CHUNK_TIMEOUT seconds as [-5]."""
    lines = [_fmt(c) for c in cases]
    n = len(lines)
    if n == 0:
        return []
    chunk = chunk or max(1, (n + NPROC - 1) // NPROC)
    jobs = [(binary, lines[i:i + chunk], timeout) for i in range(0, n, chunk)]
    results = []
    with cf.ThreadPoolExecutor(NPROC) as ex:
        for (binary_, ls, _), (rc, outs, err) in zip(jobs, ex.map(_run_impl_chunk, jobs)):
            parsed = [[int(t) for t in o.split()] for o in outs]
            if len(parsed) < len(ls):
                # the process died ([-2]) or hung ([-5]) on case len(parsed); mark it, rerun the rest
                k = len(parsed)
                parsed.append([-5] if rc == "hung" else [-2])
                if rc != "hung":
                    DEATHS[0] += 1
                if HANGS[0] >= 3 or DEATHS[0] >= 8:
                    # the check has its violations; do not spend minutes on every further dying / hanging case
                    parsed.extend([[-5] if rc == "hung" else [-2]] * (len(ls) - k - 1))
                elif k + 1 < len(ls):
                    rest = [[int(t) for t in l.split()] for l in ls[k + 1:]]
                    parsed.extend(run_impl(binary, rest, timeout, chunk=max(1, len(rest))))
            results.extend(parsed)
    return results


COQ_PRELUDE = ("From SF Require Import Model.Bytes Run.RunCase Run.Diff.\n"
               "Open Scope Z_scope.\nSet Printing Depth 100000000.\nSet Printing Width 200.\n")


def _znum(x):
    if x < 0:
        return "(%d)" % x
    return hex(x) if x >= 1000 else str(x)     # hex literals elaborate about twice as fast


def _zlist(l):
    return "[" + ";".join(_znum(x) for x in l) + "]"


def _coqc(path, timeout):
    rc, out, err = sh(["timeout", str(timeout), "coqc", "-noglob", "-Q", COQ, "SF", path],
                      check=False, timeout=timeout + 30)
    return rc, out, err


def _model_diff_shard(args):
    idx, pairs, workdir, timeout = args
    path = os.path.join(workdir, "shard_%d.v" % idx)
    with open(path, "w") as f:
        f.write(COQ_PRELUDE)
        f.write("Definition cases : list (list Z * list Z) :=\n [")
        f.write(";\n  ".join("(%s,%s)" % (_zlist(c), _zlist(e)) for c, e in pairs))
        f.write("].\nEval vm_compute in (mismatches 0 cases).\n")
    rc, out, err = _coqc(path, timeout)
    if rc != 0:
        return idx, None, (out + err)[-3000:]
    m = re.search(r"=\s*\[(.*?)\]\s*:\s*list Z", out, re.S)
    if not m:
        return idx, None, out[-3000:]
    body = m.group(1).strip()
    mism = [int(t) for t in re.findall(r"-?\d+", body)]
    return idx, mism, ""


def run_model_diff(tag, cases, expected, timeout=1500, shard_size=None):
    """Evaluates run_case on every case inside Coq (vm_compute) and returns the
    indices on which the model's result differs from `expected`."""
    n = len(cases)
    if n == 0:
        return []
    workdir = os.path.join(CACHE, "cases", tag)
    shutil.rmtree(workdir, ignore_errors=True)
    os.makedirs(workdir, exist_ok=True)
    shard_size = shard_size or max(1, min(2500, (n + MODEL_PAR - 1) // MODEL_PAR))
    jobs = []
    for k, i in enumerate(range(0, n, shard_size)):
        jobs.append((k, list(zip(cases[i:i + shard_size], expected[i:i + shard_size])), workdir, timeout))
    mism = []
    with cf.ThreadPoolExecutor(MODEL_PAR) as ex:
        for (k, pairs, _, _), (idx, ms, log) in zip(jobs, ex.map(_model_diff_shard, jobs)):
            if ms is None:
                raise CheckError("model evaluation failed in shard %d of %s:\n%s" % (idx, tag, log))
            mism.extend(k * shard_size + m for m in ms)
    shutil.rmtree(workdir, ignore_errors=True)
    return sorted(mism)


def run_model(tag, cases, timeout=600):
    """Evaluates run_case and returns the model's results (for diagnosis and
    replay; printing is slow, use run_model_diff for volume)."""
    workdir = os.path.join(CACHE, "cases", tag + "_out")
    shutil.rmtree(workdir, ignore_errors=True)
    os.makedirs(workdir, exist_ok=True)
    res = []
    for i, c in enumerate(cases):
        path = os.path.join(workdir, "one_%d.v" % i)
        with open(path, "w") as f:
            f.write(COQ_PRELUDE)
            f.write("Eval vm_compute in (run_case2 %s).\n" % _zlist(c))
        rc, out, err = _coqc(path, timeout)
        if rc != 0:
            raise CheckError("model evaluation failed:\n" + (out + err)[-3000:])
        m = re.search(r"=\s*\[(.*)\]\s*:\s*list Z", out, re.S)
        res.append([int(t) for t in re.findall(r"-?\d+", m.group(1))] if m else None)
    shutil.rmtree(workdir, ignore_errors=True)
    return res


# ---------------------------------------------------------------- extracted runner
EXTRACT = os.path.join(CACHE, "extract")
EXTRACT_V = ("From SF Require Import Run.RunCase.\nRequire Import Extraction ExtrOcamlBasic.\n"
             "Extraction \"model.ml\" run_case2.\n")


def build_extracted():
    """Extracts run_case2 (ExtrOcamlBasic only; Z, positive, nat stay the
    extracted inductives) and compiles it with the OCaml driver
    coq/Run/ocaml/driver.ml.  Rebuilt whenever Run/RunCase.vo is newer."""
    os.makedirs(EXTRACT, exist_ok=True)
    exe = os.path.join(EXTRACT, "modelrun")
    vo = os.path.join(COQ, "Run", "RunCase.vo")
    drv = os.path.join(COQ, "Run", "ocaml", "driver.ml")
    if os.path.exists(exe) and os.path.getmtime(exe) > max(os.path.getmtime(vo), os.path.getmtime(drv)):
        return exe
    with open(os.path.join(EXTRACT, "Extract.v"), "w") as f:
        f.write(EXTRACT_V)
    rc, out, err = sh(["timeout", "600", "coqc", "-noglob", "-Q", COQ, "SF", "Extract.v"], cwd=EXTRACT, check=False)
    if rc != 0:
        raise CheckError("extraction failed:\n" + (out + err)[-3000:])
    shutil.copy(drv, os.path.join(EXTRACT, "driver.ml"))
    rc, out, err = sh(["ocamlfind", "ocamlopt", "-O2", "-w", "-a", "model.mli", "model.ml", "driver.ml", "-o", "modelrun.tmp"],
                      cwd=EXTRACT, check=False)
    if rc != 0:
        raise CheckError("compiling the extracted model failed:\n" + (out + err)[-3000:])
    os.replace(os.path.join(EXTRACT, "modelrun.tmp"), exe)
    return exe


# generous: a chunk of the largest thorough tier takes < 4 min on an idle machine, but checks may share the machine
OCAML_CHUNK_TIMEOUT = 3000


def _ocaml_chunk(args):
    exe, text, mode = args
    try:
        p = subprocess.run(["bash", "-c", "ulimit -s unlimited 2>/dev/null; exec %s %s" % (exe, mode)], input=text,
                           stdout=subprocess.PIPE, stderr=subprocess.PIPE, text=True, timeout=OCAML_CHUNK_TIMEOUT)
    except subprocess.TimeoutExpired:
        raise CheckError("extracted model runner did not finish a chunk within %d s" % OCAML_CHUNK_TIMEOUT)
    outs = [l for l in p.stdout.splitlines() if not l.startswith("WARNING conda")]
    return p.returncode, outs, p.stderr[-2000:]


def run_model_diff_ocaml(cases, expected):
    """Runs the extracted model on every case and returns (indices whose result
    differs from `expected`, {index: model result})."""
    exe = build_extracted()
    n = len(cases)
    if n == 0:
        return [], {}
    chunk = max(1, (n + NPROC - 1) // NPROC)
    jobs = []
    for i in range(0, n, chunk):
        text = "".join(_fmt(c) + "\n" + _fmt(e) + "\n" for c, e in zip(cases[i:i + chunk], expected[i:i + chunk]))
        jobs.append((exe, text, "diff"))
    mism, results = [], {}
    with cf.ThreadPoolExecutor(NPROC) as ex:
        for k, (rc, outs, err) in enumerate(ex.map(_ocaml_chunk, jobs)):
            want = min(chunk, n - k * chunk)
            if rc != 0 or len(outs) != want:
                raise CheckError("extracted model runner failed (rc %s, %d of %d lines): %s" % (rc, len(outs), want, err))
            for j, o in enumerate(outs):
                if o != "=":
                    mism.append(k * chunk + j)
                    results[k * chunk + j] = [int(t) for t in o[1:].split()]
    return mism, results


def run_model_ocaml(cases):
    exe = build_extracted()
    rc, outs, err = _ocaml_chunk((exe, "".join(_fmt(c) + "\n" for c in cases), "run"))
    if rc != 0 or len(outs) != len(cases):
        raise CheckError("extracted model runner failed: %s" % err)
    return [[int(t) for t in o.split()] for o in outs]


# ---------------------------------------------------------------- proof audit
FORBIDDEN = re.compile(
    r"\b(Admitted|admit|Axiom|Axioms|Parameter|Parameters|Conjecture|Conjectures|Admit Obligations|"
    r"Unset Guard Checking|Unset Positivity Checking|Unset Universe Checking|bypass_check|"
    r"type-in-type|impredicative-set|native_compute)\b")
SECTION_VARS = re.compile(r"^\s*(Variable|Variables|Hypothesis|Hypotheses|Context)\b")

STDLIB_AXIOMS_ALLOWED = {
    "ClassicalDedekindReals.sig_forall_dec",
    "ClassicalDedekindReals.sig_not_dec",
    "FunctionalExtensionality.functional_extensionality_dep",
    "Classical_Prop.classic",
}


def _strip_comments(src):
    out, depth, i = [], 0, 0
    while i < len(src):
        if src.startswith("(*", i):
            depth += 1
            i += 2
        elif src.startswith("*)", i) and depth > 0:
            depth -= 1
            i += 2
        else:
            if depth == 0:
                out.append(src[i])
            elif src[i] == "\n":
                out.append("\n")
            i += 1
    return "".join(out)


def grep_forbidden():
    """Returns a list of 'file:line: text' for forbidden commands anywhere in the
    development (comments stripped)."""
    bad = []
    for root, _, files in os.walk(COQ):
        for fn in files:
            if not fn.endswith(".v"):
                continue
            p = os.path.join(root, fn)
            src = _strip_comments(open(p).read())
            in_section = 0
            for ln, line in enumerate(src.splitlines(), 1):
                if re.match(r"^\s*Section\b", line):
                    in_section += 1
                if re.match(r"^\s*End\b", line) and in_section:
                    in_section -= 1
                if FORBIDDEN.search(line):
                    bad.append("%s:%d: %s" % (os.path.relpath(p, VERIF), ln, line.strip()))
                if SECTION_VARS.match(line) and not in_section:
                    bad.append("%s:%d: %s (outside a section)" % (os.path.relpath(p, VERIF), ln, line.strip()))
    return bad


def audit(prop, theorems):
    """Compiles a small file printing the assumptions of every theorem of the
    property.  Returns {theorem: [axioms]} ([] = closed under the global
    context); raises if a theorem is missing."""
    workdir = os.path.join(CACHE, "audit")
    os.makedirs(workdir, exist_ok=True)
    path = os.path.join(workdir, "Audit_%s.v" % prop)
    with open(path, "w") as f:
        f.write("From SF Require Import Properties.%s.\n" % prop)
        for t in theorems:
            f.write('Goal True. idtac "@@BEGIN %s". Abort.\nPrint Assumptions %s.\nGoal True. idtac "@@END". Abort.\n' % (t, t))
    rc, out, err = _coqc(path, 900)
    if rc != 0:
        raise CheckError("audit of %s failed:\n%s" % (prop, (out + err)[-3000:]))
    res = {}
    for m in re.finditer(r"@@BEGIN (\S+)\n(.*?)@@END", out, re.S):
        name, body = m.group(1), m.group(2)
        if "Closed under the global context" in body:
            res[name] = []
        else:
            axs = re.findall(r"^([A-Za-z_][\w.']*)[ \t]*(?::|$)", body, re.M)
            res[name] = [a for a in axs if a != "Axioms"]
    for t in theorems:
        if t not in res:
            raise CheckError("audit: no assumptions printed for %s" % t)
    return res


# ---------------------------------------------------------------- reporting
class Report:
    """Collects what one check run covered and found; writes the evidence file
    and prints VIOLATION / KNOWN-FINDING lines."""

    def __init__(self, prop, tier, seed):
        self.prop, self.tier, self.seed = prop, tier, seed
        self.t0 = time.time()
        self.violations = []          # (replay_path, nofail)
        self.known = []
        self.cov = {"evaluations": 0, "distinct_nontrivial": 0, "rule": "", "samples": [],
                    "obligations": 0, "discharged": 0, "checker_cmd": "", "trusted_base": [],
                    "correspondence": {}, "oracle": {}, "distribution": {}}
        self.assumptions = []
        self._distinct = set()
        self.level = "proof"

    def count_case(self, canon, nontrivial=True):
        self.cov["evaluations"] += 1
        if nontrivial:
            h = hashlib.sha1(repr(canon).encode()).digest()[:10]
            self._distinct.add(h)

    def sample(self, s, limit=4):
        if len(self.cov["samples"]) < limit:
            self.cov["samples"].append(s)

    def dist(self, key, n=1):
        d = self.cov["distribution"]
        d[key] = d.get(key, 0) + n

    MAX_REPLAYS = 12

    def violation(self, detail, nofail=False):
        os.makedirs(os.path.join(REPLAYS, self.prop), exist_ok=True)
        k = len(self.violations)
        if k >= self.MAX_REPLAYS and not nofail:
            # enough replay files: further failing inputs of the same run are only counted
            self.cov["violations_beyond_the_first_%d" % self.MAX_REPLAYS] = \
                self.cov.get("violations_beyond_the_first_%d" % self.MAX_REPLAYS, 0) + 1
            return
        path = os.path.join(REPLAYS, self.prop, "%s_%s_%d_%d.json" % (self.prop, self.tier, self.seed, k))
        detail = dict(detail)
        detail["property"] = self.prop
        detail["no_failing_input_found"] = nofail
        with open(path, "w") as f:
            json.dump(detail, f, indent=1, default=str)
        self.violations.append((path, nofail))

    def known_finding(self, text):
        self.known.append(text)
        print("KNOWN-FINDING: property=%s %s" % (self.prop, text))

    def finish(self):
        # VIOLATION lines are printed here: broken proofs / correspondences are reported with
        # no-failing-input-found only when no oracle produced a concrete failing input in this run
        have_input = any(not nf for _, nf in self.violations)
        for path, nf in self.violations:
            if nf and have_input:
                print("NOTE property=%s also-broken=%s (proof obligation or correspondence; a failing input was found, see the "
                      "VIOLATION line)" % (self.prop, path))
            else:
                print("VIOLATION property=%s replay=%s%s" % (self.prop, path, " no-failing-input-found" if nf else ""))
        sys.stdout.flush()
        self.cov["distinct_nontrivial"] = len(self._distinct)
        self.cov["known_findings_reported"] = self.known
        ev = {"property_id": self.prop, "tier": self.tier, "seed": self.seed, "level": self.level,
              "coverage": self.cov, "assumptions": self.assumptions,
              "wall_s": round(time.time() - self.t0, 2), "violations": len(self.violations)}
        os.makedirs(os.path.join(VERIF, "evidence"), exist_ok=True)
        with open(os.path.join(VERIF, "evidence", "%s.json" % self.prop), "w") as f:
            json.dump(ev, f, indent=1, default=str)
        return 1 if self.violations else 0


def load_known_findings():
    p = os.path.join(VERIF, "known_findings.json")
    if not os.path.exists(p):
        return {"findings": [], "fixed": []}
    return json.load(open(p))


def rng_for(prop, seed):
    h = int(hashlib.sha256(("%s:%d" % (prop, seed)).encode()).hexdigest()[:16], 16)
    return random.Random(h)
