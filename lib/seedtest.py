#!/usr/bin/env python3
"""Confirms a seeded mutation and runs the checks against it.

  python3 lib/seedtest.py <ID> <k> [--props C01,C04] [--tier quick] [--skip-confirm]

<ID> is the property the mutation was written against; the sub-agent's output
lives in /tmp/mut/<ID>/out/{patch<k>.diff, demo_<ID>_<k>.rs, note<k>.txt} and
its scratch worktree is /tmp/mut/<ID>.

1. confirmation, in the scratch worktree: the patch applies to a clean tree,
   the crate builds, the existing test suite passes with it, the demonstration
   fails with it and passes without it;
2. the patch is applied to /repo, the quick checks of the listed properties
   are run, /repo is restored (git checkout -- .) whatever happens;
3. /verif/seeded/<ID>_<k>/ receives patch.diff, the demonstration, meta.json."""
import json
import os
import re
import shutil
import subprocess
import sys
import time

VERIF = os.path.dirname(os.path.dirname(os.path.abspath(__file__)))


def sh(cmd, cwd=None, timeout=3600):
    env = dict(os.environ)
    env.update({"CARGO_NET_OFFLINE": "true"})
    p = subprocess.run(cmd, cwd=cwd, shell=True, stdout=subprocess.PIPE, stderr=subprocess.STDOUT, text=True,
                       timeout=timeout, env=env)
    out = "\n".join(l for l in p.stdout.splitlines() if not l.startswith("WARNING conda"))
    return p.returncode, out


def confirm(pid, k):
    wt = "/tmp/mut/%s" % pid
    out = os.path.join(wt, "out")
    patch = os.path.join(out, "patch%s.diff" % k)
    demo = os.path.join(out, "demo_%s_%s.rs" % (pid, k))
    tgt = "CARGO_TARGET_DIR=%s/target" % wt
    feat = " --features geo-types,geo-traits" if pid == "C20" else ""
    res = {}
    sh("git checkout -- . && rm -f tests/demo_*.rs", cwd=wt)
    rc, o = sh("git apply --check %s && git apply %s" % (patch, patch), cwd=wt)
    res["applies"] = rc == 0
    if rc != 0:
        return res, o
    rc, o = sh("%s cargo test --offline%s 2>&1 | grep -E '^test result|error|FAILED' " % (tgt, feat), cwd=wt)
    passed = sum(int(m) for m in re.findall(r"test result: ok\. (\d+) passed", o))
    res["suite_with_patch"] = {"passed_total_incl_doctests": passed, "failed": "FAILED" in o or "error" in o}
    shutil.copy(demo, os.path.join(wt, "tests", os.path.basename(demo)))
    name = os.path.basename(demo)[:-3]
    rc1, o1 = sh("%s cargo test --offline%s --test %s 2>&1 | tail -15" % (tgt, feat, name), cwd=wt)
    res["demo_with_patch_fails"] = "test result: FAILED" in o1
    sh("git checkout -- src", cwd=wt)
    rc2, o2 = sh("%s cargo test --offline%s --test %s 2>&1 | tail -5" % (tgt, feat, name), cwd=wt)
    res["demo_without_patch_passes"] = "test result: ok" in o2 and "FAILED" not in o2
    sh("git checkout -- . && rm -f tests/demo_*.rs", cwd=wt)
    return res, o1[-1500:]


def run_checks(pid, k, props, tier):
    patch = "/tmp/mut/%s/out/patch%s.diff" % (pid, k)
    rc, o = sh("git -C /repo status --porcelain")
    if o.strip():
        raise SystemExit("/repo is not clean: " + o)
    results = {}
    rc, o = sh("git -C /repo apply %s" % patch)
    if rc != 0:
        raise SystemExit("patch does not apply to /repo: " + o)
    try:
        for p in props:
            t0 = time.time()
            rc, o = sh("./check %s %s" % (p, tier), cwd=VERIF, timeout=7200)
            viol = [l for l in o.splitlines() if l.startswith("VIOLATION")]
            detail = None
            if viol:
                m = re.search(r"replay=(\S+)", viol[0])
                if m and os.path.exists(m.group(1)):
                    d = json.load(open(m.group(1)))
                    detail = {"kind": d.get("kind"), "what": str(d.get("what"))[:300]}
            results[p] = {"exit": rc, "violations": viol[:4], "first": detail, "secs": round(time.time() - t0, 1),
                          "detected": rc == 1 and bool(viol)}
    finally:
        sh("git -C /repo checkout -- .")
    return results


def main():
    pid, k = sys.argv[1], sys.argv[2]
    props = [pid]
    tier = "quick"
    skip = "--skip-confirm" in sys.argv
    for i, a in enumerate(sys.argv):
        if a == "--props":
            props = sys.argv[i + 1].split(",")
        if a == "--tier":
            tier = sys.argv[i + 1]
    dst = os.path.join(VERIF, "seeded", "%s_%s" % (pid, k))
    meta_path = os.path.join(dst, "meta.json")
    meta = json.load(open(meta_path)) if os.path.exists(meta_path) else {}
    if not skip:
        conf, log = confirm(pid, k)
        print("confirm:", conf)
        meta["confirmation"] = conf
        meta["confirmation_cmds"] = ["git apply patch.diff (scratch worktree of /repo HEAD)",
                                     "cargo test --offline (existing suite with the patch)",
                                     "cargo test --offline --test demo (with the patch: must fail; without: must pass)"]
        if not (conf.get("applies") and conf.get("demo_with_patch_fails") and conf.get("demo_without_patch_passes")
                and not conf["suite_with_patch"]["failed"]):
            print("NOT CONFIRMED\n" + log)
            return 1
    res = run_checks(pid, k, props, tier)
    for p, r in res.items():
        print(p, "DETECTED" if r["detected"] else "missed", r["first"] or "", "%.0fs" % r["secs"])
    os.makedirs(dst, exist_ok=True)
    shutil.copy("/tmp/mut/%s/out/patch%s.diff" % (pid, k), os.path.join(dst, "patch.diff"))
    shutil.copy("/tmp/mut/%s/out/demo_%s_%s.rs" % (pid, pid, k), os.path.join(dst, "demo.rs"))
    note = "/tmp/mut/%s/out/note%s.txt" % (pid, k)
    meta.update({"breaks_property": pid, "needs_to_manifest": open(note).read() if os.path.exists(note) else "",
                 "author": "independent sub-agent given only the property text and a scratch worktree"})
    meta.setdefault("checks_run", {}).update({p: {kk: r[kk] for kk in ("exit", "detected", "first", "violations")}
                                              for p, r in res.items()})
    meta["commands"] = ["git -C /repo apply seeded/%s_%s/patch.diff" % (pid, k)] + \
                       ["./check %s %s" % (p, tier) for p in props] + ["git -C /repo checkout -- ."]
    json.dump(meta, open(meta_path, "w"), indent=1)
    return 0


if __name__ == "__main__":
    sys.exit(main())
