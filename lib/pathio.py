"""Files placed on disk by the driver and read through the path-based API of
the library (`read_shapes`, `read_shapes_as`, `ShapeReader::from_path`), via the
harness's `pathread` mode; compared with in-memory reads of the same bytes."""
import os
import shutil
import subprocess

import cases as C
import sfv


def flat_expected(all_result):
    """In-memory bulk read result ({'all': ('ok', [values]) | ('err', ...)}) in
    the format of the harness's path lines."""
    if all_result[0] == "ok":
        out = [len(all_result[1])]
        for v in all_result[1]:
            out += [0] + list(v)
        return out
    return [-1] + list(all_result[1:])


def pathread(tag, name, shp, shx, req):
    """Writes the bytes under .cache/tmp/<tag>/<name>.shp (and .shx when given)
    and returns the three result lines of `runner pathread` as lists of int."""
    rel = os.path.join(sfv.TARGET, "debug", "runner")
    d = os.path.join(sfv.CACHE, "tmp", tag)
    os.makedirs(d, exist_ok=True)
    p = os.path.join(d, name + ".shp")
    open(p, "wb").write(shp)
    px = os.path.join(d, name + ".shx")
    if shx is not None:
        open(px, "wb").write(shx)
    elif os.path.exists(px):
        os.remove(px)
    r = subprocess.run([rel, "pathread", p, str(req)], stdout=subprocess.PIPE, text=True, timeout=120)
    out = [l for l in r.stdout.splitlines() if not l.startswith("WARNING")]
    return [[int(t) for t in l.split()] for l in out]


def in_memory(binary, shp, shx, req):
    """Bulk read of the same bytes from memory: generic, typed (or None), generic again."""
    cs = [C.read_case(-1, shp, shx, [("readall",)])]
    if req != -1:
        cs.append(C.read_case(req, shp, shx, [("readall",)]))
    rs = sfv.run_impl(binary, cs)
    outs = []
    for r in rs:
        rd = C.parse_read(r, [("readall",)])
        if rd.get("panic"):
            outs.append(["panic"])
        elif "open_err" in rd:
            outs.append([-1] + list(rd["open_err"]))
        else:
            outs.append(flat_expected(rd["ops"][0]["all"]))
    return outs[0], (outs[1] if req != -1 else [-2])


def check(rep, binary, tag, name, shp, shx, req, what):
    """Returns an error message if the path-based reads differ from the in-memory ones."""
    got = pathread(tag, name, shp, shx, req)
    if len(got) != 3:
        return "%s: the path-based read did not complete (%d result lines)" % (what, len(got))
    gen, typ = in_memory(binary, shp, shx, req)
    if got[0] != gen:
        return "%s: read_shapes(path) differs from the in-memory read of the same bytes (%r... vs %r...)" % (what, got[0][:6], gen[:6])
    if got[1] != typ:
        return "%s: read_shapes_as::<%d>(path) differs from the in-memory typed read (%r... vs %r...)" % (what, req, got[1][:6], typ[:6])
    if got[2] != gen:
        return "%s: ShapeReader::from_path(path).read() differs from the in-memory read (%r... vs %r...)" % (what, got[2][:6], gen[:6])
    return None


def cleanup(tag):
    shutil.rmtree(os.path.join(sfv.CACHE, "tmp", tag), ignore_errors=True)
