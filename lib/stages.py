"""Stages shared by all checks: proof obligations, correspondence."""
import os
import re
import time

import obligations
import sfv


def proof_stage(rep, prop, extra_targets=()):
    """Builds the property's theorems, audits their assumptions and greps the
    development for forbidden commands.  A failure here is reported as a
    violation without failing input (the property is no longer shown)."""
    theorems = obligations.THEOREMS[prop]
    rep.cov["obligations"] = len(theorems)
    rep.cov["checker_cmd"] = ("make -C coq Properties/%s.vo (coqc 8.16.1, full .vo) ; "
                              "coqc Audit_%s.v (Print Assumptions per theorem)" % (prop, prop))
    rep.cov["trusted_base"] = list(obligations.KERNEL_TB)
    ok, log, secs = sfv.build_coq(["Properties/%s.vo" % prop, "Run/Diff.vo"] + list(extra_targets))
    rep.cov["coq_build_s"] = round(secs, 1)
    if not ok:
        rep.violation({"kind": "proof", "what": "Coq build of Properties/%s.vo failed" % prop,
                       "theorems": theorems, "log": log[-3000:]}, nofail=True)
        return False
    bad = sfv.grep_forbidden()
    if bad:
        rep.violation({"kind": "proof", "what": "forbidden command in the development", "where": bad}, nofail=True)
        return False
    ax = sfv.audit(prop, theorems)
    discharged = 0
    used = set()
    for t in theorems:
        extra = set(ax[t]) - obligations.allowed_axioms(t)
        if extra:
            rep.violation({"kind": "proof", "what": "theorem %s depends on axioms outside its allow-list" % t,
                           "axioms": sorted(extra)}, nofail=True)
        else:
            discharged += 1
            used |= set(ax[t])
    rep.cov["discharged"] = discharged
    rep.cov["theorems"] = {t: (ax[t] or "closed under the global context") for t in theorems}
    if used:
        rep.cov["trusted_base"].append("standard-library axioms used: " + ", ".join(sorted(used)))
    else:
        rep.cov["trusted_base"].append("axioms: none (every theorem closed under the global context)")
    if rep.tier == "thorough":
        # independent re-check of the compiled property file and everything it depends on
        rc, out, err = sfv.sh(["timeout", "1500", "coqchk", "-silent", "-o", "-Q", sfv.COQ, "SF", "SF.Properties.%s" % prop],
                              check=False, timeout=1600)
        txt = out + err
        axioms = sorted(set(re.findall(r"^\s*((?:Coq|SF|Flocq)\.[\w.']+)\s*$", txt, re.M)))
        rep.cov["coqchk"] = {"exit": rc, "axioms_listed": axioms}
        foreign = [a for a in axioms if not any(a.endswith(x.split(".")[-1]) for x in sfv.STDLIB_AXIOMS_ALLOWED)]
        if rc != 0 or foreign:
            rep.violation({"kind": "proof", "what": "coqchk rejects Properties/%s or lists axioms outside the allow-list" % prop,
                           "axioms": foreign, "log": txt[-2000:]}, nofail=True)
            return False
    return discharged == len(theorems)


VM_SAMPLE = 120
VM_MAX_INTS = 5000


def correspondence(rep, tag, binary, cases, label, nontrivial=None, oracle=None, known=None, impl_out=None,
                   vm_sample=None, model=True):
    """Runs the implementation and the model on the cases and compares.
    oracle(case, impl_result) -> None | str evaluates the property's own
    predicate on the implementation's output (the search for a failing input).
    Returns the implementation's results."""
    t0 = time.time()
    impl = impl_out if impl_out is not None else sfv.run_impl(binary, cases)
    t1 = time.time()
    n_oracle_fail = 0
    first_fail = None
    for c, r in zip(cases, impl):
        rep.count_case((c, r), nontrivial(c, r) if nontrivial else True)
        if r == [-1]:
            raise sfv.CheckError("harness rejected case %r" % (c[:40],))
        if r == [-2] or r == [-5]:
            rep.violation({"kind": "oracle", "what": "harness process died (abort / stack overflow / kill)" if r == [-2] else
                           "the implementation did not return within %d s on this input (hang)" % sfv.IMPL_CHUNK_TIMEOUT,
                           "case_kind": label, "case": c})
            n_oracle_fail += 1
            continue
        if oracle:
            msg = oracle(c, r)
            if msg:
                k = known(c, r, msg) if known else None
                if k:
                    continue
                n_oracle_fail += 1
                if first_fail is None:
                    first_fail = (c, r, msg)
    if first_fail:
        c, r, msg = first_fail
        rep.violation({"kind": "oracle", "what": msg, "case_kind": label, "case": c, "impl_result": r,
                       "failing_cases": n_oracle_fail})
    if not model:
        # implementation only (cases too large for the model in this tier): the caller's oracle decides
        io = rep.cov["correspondence"].setdefault(label + " (implementation only, direct oracle)", {"cases": 0, "impl_s": 0})
        io["cases"] += len(cases)
        io["impl_s"] = round(io["impl_s"] + t1 - t0, 2)
        return impl
    # every case goes through the extracted model (OCaml); an evenly spread subsample is also
    # evaluated inside Coq by vm_compute, which cross-checks the extraction and the OCaml driver
    mism, _ = sfv.run_model_diff_ocaml(cases, impl)
    nvm = min(len(cases), vm_sample if vm_sample is not None else VM_SAMPLE)
    small = [i for i in range(len(cases)) if len(cases[i]) + len(impl[i]) <= VM_MAX_INTS]   # big cases: extracted runner only
    step = max(1, len(small) // max(1, nvm))
    sub = small[::step][:nvm]
    vm_mism = sfv.run_model_diff("%s_%s" % (rep.prop, tag), [cases[i] for i in sub], [impl[i] for i in sub]) if sub else []
    mism = sorted(set(mism) | set(sub[i] for i in vm_mism))
    t2 = time.time()
    cor = rep.cov["correspondence"].setdefault(label, {"cases": 0, "disagreements": 0, "impl_s": 0, "model_s": 0,
                                                       "in_coq_vm_compute": 0})
    cor["in_coq_vm_compute"] += len(sub)
    cor["cases"] += len(cases)
    cor["disagreements"] += len(mism)
    cor["impl_s"] = round(cor["impl_s"] + t1 - t0, 2)
    cor["model_s"] = round(cor["model_s"] + t2 - t1, 2)
    if mism:
        i = mism[0]
        model = sfv.run_model("%s_%s" % (rep.prop, tag), [cases[i]])[0]
        # a disagreement with no oracle failure: the model's theorem no longer
        # speaks about this code
        rep.violation({"kind": "correspondence", "what": "model and implementation disagree",
                       "case_kind": label, "case": cases[i], "impl_result": impl[i], "model_result": model,
                       "disagreeing_cases": len(mism), "checked": "run_case (coq/Run/RunCase.v) vs harness"},
                      nofail=(n_oracle_fail == 0))
    return impl
