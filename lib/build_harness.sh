#!/bin/bash
# Builds the Rust harnesses (runner: dev and release; runner-geo: dev) against /repo's current tree, offline.
set -e
cd "$(dirname "$0")/../harness/runner"
export CARGO_NET_OFFLINE=true CARGO_TARGET_DIR="$(cd ../.. && pwd)/.cache/target"
mkdir -p "$CARGO_TARGET_DIR"
[ -f Cargo.lock ] || cp /repo/Cargo.lock .
cargo build --offline --quiet 2>&1 | grep -v '^WARNING conda' || true
cargo build --offline --quiet --release 2>&1 | grep -v '^WARNING conda' || true
test -x "$CARGO_TARGET_DIR/debug/runner" && test -x "$CARGO_TARGET_DIR/release/runner"
cd ../runner-geo
[ -f Cargo.lock ] || cp /repo/Cargo.lock .
cargo build --offline --quiet 2>&1 | grep -v '^WARNING conda' || true
test -x "$CARGO_TARGET_DIR/debug/runner-geo"
