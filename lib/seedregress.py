#!/usr/bin/env python3
"""Re-runs the quick check of its property against kept seeded changes (seeded/<ID>_<k>/patch.diff), restoring /repo
after each one, and reports which are (still) detected.  Nothing is written to seeded/.

  python3 lib/seedregress.py [ID_k ...]      default: two seeds per property, chosen by VERIF_SEED"""
import os
import random
import subprocess
import sys

VERIF = os.path.dirname(os.path.dirname(os.path.abspath(__file__)))


def main():
    seeds = sys.argv[1:]
    if not seeds:
        rng = random.Random(int(os.environ.get("VERIF_SEED", "1")))
        for i in range(1, 21):
            ks = sorted(int(d.split("_")[1]) for d in os.listdir(os.path.join(VERIF, "seeded")) if d.startswith("C%02d_" % i))
            seeds += ["C%02d_%d" % (i, k) for k in rng.sample(ks, min(2, len(ks)))]
    missed = []
    for sd in seeds:
        pid = sd.split("_")[0]
        patch = os.path.join(VERIF, "seeded", sd, "patch.diff")
        if subprocess.run(["git", "-C", "/repo", "apply", patch]).returncode != 0:
            print(sd, "patch does not apply")
            continue
        try:
            p = subprocess.run(["./check", pid, "quick"], cwd=VERIF, stdout=subprocess.PIPE, stderr=subprocess.STDOUT, text=True, timeout=3000)
            det = p.returncode == 1 and "VIOLATION" in p.stdout
        finally:
            subprocess.run(["git", "-C", "/repo", "checkout", "--", "."])
        print(sd, "DETECTED" if det else "missed", flush=True)
        if not det:
            missed.append(sd)
    print("missed:", missed)
    return 1 if missed else 0


if __name__ == "__main__":
    sys.exit(main())
