"""Property theorems (the proof obligations of each check) and the axioms each
may depend on (checked against Print Assumptions on every run)."""
from sfv import STDLIB_AXIOMS_ALLOWED

THEOREMS = {
    "C01": ["C01_roundtrip_seq", "C01_roundtrip_index", "C01_same_type", "C01_xyz_bit_identical", "C01_measures", "C01_measure_rule",
            "C01_kinds_and_box", "C01_roles", "C01_roles_kept", "C01_roundtrip_by_path", "C01_by_path_without_index",
            "C01_second_shapefile_harmless"],
    "C02": ["C02_record", "C02_emits_spec", "C02_conformant", "C02_geometry_recovered"],
    "C04": ["C04_shx_layout", "C04_entries", "C04_entries_address_records", "C04_reader", "C04_hint_and_count"],
    "C14": ["C14_index_governs", "C14_iteration_is_index_order", "C14_nth_agrees"],
    "C15": ["C15_history", "C15_nth_and_count_stable", "C15_iteration", "C15_partial_iteration", "C15_positions"],
    "C05": ["C05_shape_box", "C05_range_is_box", "C05_header_box", "C05_header_absent"],
    "C06": ["C06_typed_vs_generic", "C06_never_wrong_type", "C06_type_identity", "C06_dispatch", "C06_try_from",
            "C06_from_tryfrom", "C06_bulk", "C06_typed_iteration", "C06_typed_is_generic_converted"],
    "C07": ["C07_open", "C07_index_parse", "C07_no_panic", "C07_record", "C07_bounded_index", "C07_bounded_noindex"],
    "C13": ["C13_truncation", "C13_truncated_header", "C13_inside_is_prefix", "C13_record_cut", "C13_fault", "C13_fault_open",
            "C13_short_reads"],
    "C12": ["C12_fault_surfaces", "C12_finalize_any", "C12_retry", "C12_failed_finalize_harmless", "C12_calls_never_panic", "C12_history_never_panics", "C12_reachable", "C12_drop", "C12_chunking"],
    "C11": ["C11_crash_states", "C11_read_any_header", "C11_crash_prefix", "C11_torn_length_monotone",
            "C11_torn_header", "C11_committed_states", "C11_committed_readable",
            "C11_read_index_truncated", "C11_index_from_crash_state", "C11_crash_index_ordered", "C11_crash_states_shx",
            "C11_crash_prefix_index"],
    "C16": ["C16_rings", "C16_vertices", "C16_closed", "C16_orientation", "C16_idempotent", "C16_multipatch",
            "C16_test_is_exact_sign", "C16_area_of_reverse", "C16_orientation_exact", "C16_idempotent_exact"],
    "C17": ["C17_requests", "C17_index_requests", "C17_record_requests"],
    "C08": ["C08_rejected_call", "C08_history", "C08_pairs", "C08_pairs_spec", "C08_files_of_two_shapefiles_disjoint",
            "C08_three_files", "C08_missing_dbf", "C08_open_after_write"],
    "C20": ["C20_to_geo", "C20_polygon_grouping", "C20_back", "C20_from_geo", "C20_refusals", "C20_dims", "C20_polygon_back",
            "C20_multipolygon_from_geo", "C20_polygon_from_geo"],
    "C03": ["C03_record", "C03_decodes_conformant"],
    "C09": ["C09_finalize_irrelevant", "C09_files", "C09_finalize_complete", "C09_clean_finalize_silent", "C09_bulk_ending"],
    "C10": ["C10_reject", "C10_erase", "C10_bulk_is_calls", "C10_complete_bulk_is_calls"],
    "C18": ["C18_size", "C18_record_len", "C18_record_bytes"],
    "C19": ["C19_decode_iff", "C19_image", "C19_injective", "C19_table", "C19_predicates"],
}

# theorem -> set of allowed standard-library axioms (default: none, i.e. the
# theorem must be closed under the global context)
# theorems whose statement mentions the orientation test (Flocq binary64 arithmetic) inherit the four
# classical-reals axioms of the standard library through Flocq's definitions
FLOCQ = set(STDLIB_AXIOMS_ALLOWED)
AXIOMS = {"C16_test_is_exact_sign": FLOCQ, "C16_orientation_exact": FLOCQ, "C16_idempotent_exact": FLOCQ, "C01_roles_kept": FLOCQ,
          "C20_to_geo": FLOCQ, "C20_polygon_grouping": FLOCQ, "C20_back": FLOCQ, "C20_from_geo": FLOCQ, "C20_refusals": FLOCQ,
          "C20_dims": FLOCQ, "C20_polygon_back": FLOCQ, "C20_multipolygon_from_geo": FLOCQ, "C20_polygon_from_geo": FLOCQ,
          "C08_pairs": FLOCQ,
          "C17_requests": FLOCQ, "C17_index_requests": FLOCQ, "C17_record_requests": FLOCQ,
          "C16_rings": FLOCQ, "C16_vertices": FLOCQ, "C16_closed": FLOCQ, "C16_orientation": FLOCQ, "C16_idempotent": FLOCQ,
          "C16_multipatch": FLOCQ,
          "C11_read_any_header": FLOCQ, "C11_crash_prefix": FLOCQ, "C11_committed_readable": FLOCQ, "C11_read_index_truncated": FLOCQ, "C11_index_from_crash_state": FLOCQ,
          "C11_crash_index_ordered": FLOCQ, "C11_crash_prefix_index": FLOCQ,
          "C13_truncation": FLOCQ, "C13_truncated_header": FLOCQ, "C13_record_cut": FLOCQ, "C13_fault": FLOCQ,
          "C13_fault_open": FLOCQ, "C13_inside_is_prefix": FLOCQ,
          "C07_open": FLOCQ, "C07_index_parse": FLOCQ, "C07_no_panic": FLOCQ, "C07_record": FLOCQ, "C07_bounded_index": FLOCQ,
          "C07_bounded_noindex": FLOCQ,
          "C06_typed_vs_generic": FLOCQ, "C06_typed_iteration": FLOCQ, "C06_typed_is_generic_converted": FLOCQ, "C06_never_wrong_type": FLOCQ, "C06_dispatch": FLOCQ,
          "C05_shape_box": FLOCQ,
          "C01_roundtrip_index": FLOCQ, "C01_roundtrip_by_path": FLOCQ, "C04_shx_layout": set(), "C04_entries_address_records": FLOCQ, "C04_reader": FLOCQ,
          "C04_hint_and_count": FLOCQ, "C14_index_governs": FLOCQ, "C14_iteration_is_index_order": FLOCQ, "C14_nth_agrees": FLOCQ,
          "C15_history": FLOCQ, "C15_nth_and_count_stable": FLOCQ, "C15_iteration": FLOCQ, "C15_partial_iteration": FLOCQ,
          "C15_positions": FLOCQ,
          "C03_record": FLOCQ, "C03_decodes_conformant": FLOCQ, "C01_roundtrip_seq": FLOCQ, "C01_roles": FLOCQ, "C01_same_type": FLOCQ, "C01_xyz_bit_identical": FLOCQ,
          "C01_measures": FLOCQ, "C01_kinds_and_box": FLOCQ,
          "C02_geometry_recovered": FLOCQ}


def allowed_axioms(theorem):
    return AXIOMS.get(theorem, set())


KERNEL_TB = [
    "Coq 8.16.1 kernel (coqc, full .vo build); vm_compute used for finite sweeps and for evaluating cases; no native_compute",
    "hand-written Gallina model of the Rust code (coq/Model), tied to /repo by the correspondence check of this run",
    "Rust harness (harness/runner), Python driver and generators (lib/, gen/), rustc/cargo 1.95 dev profile (overflow checks on)",
]
