"""Seeded generators of constructor calls (wire format, see coq/Run/Wire.v).

A constructor spec is a list of ints:
  0                                   Null
  1 x y | 21 x y m | 11 x y z m       points
  8|28|18 n pts                       Multipoint*::new
  3|23|13 0 n pts                     Polyline*::new
  3|23|13 1 k (n pts)*                Polyline*::with_parts
  5|25|15 0 role n pts                Polygon*::new
  5|25|15 1 k (role n pts)*           Polygon*::with_rings
  31 0 kind n pts | 31 1 k (kind n pts)*   Multipatch::new / with_parts
Floats are 64-bit patterns."""
import struct

POINT_CODES = [1, 21, 11]
MULTIPOINT_CODES = [8, 28, 18]
POLYLINE_CODES = [3, 23, 13]
POLYGON_CODES = [5, 25, 15]
ALL_CODES = POINT_CODES + MULTIPOINT_CODES + POLYLINE_CODES + POLYGON_CODES + [31]
TYPE_NAMES = {0: "NullShape", 1: "Point", 3: "Polyline", 5: "Polygon", 8: "Multipoint",
              11: "PointZ", 13: "PolylineZ", 15: "PolygonZ", 18: "MultipointZ",
              21: "PointM", 23: "PolylineM", 25: "PolygonM", 28: "MultipointM", 31: "Multipatch"}


def dim_of(code):
    """2, 3 (XYM) or 4 (XYZM) coordinates per point."""
    if code in (1, 8, 3, 5):
        return 2
    if code in (21, 28, 23, 25):
        return 3
    return 4


def f2b(x):
    return struct.unpack("<Q", struct.pack("<d", x))[0]


def b2f(b):
    return struct.unpack("<d", struct.pack("<Q", b))[0]


NO_DATA = 0xC8078287F49C4A1D
F_MAX = 0x7FEFFFFFFFFFFFFF
F_MIN = 0xFFEFFFFFFFFFFFFF
INF = 0x7FF0000000000000
NINF = 0xFFF0000000000000
NZERO = 0x8000000000000000
NANS = [0x7FF8000000000000, 0xFFF8000000000000, 0x7FF0000000000001, 0x7FF8000000000123,
        0xFFF4000000000000, 0x7FFFFFFFFFFFFFFF]

SPECIAL = [0, NZERO, 1, NZERO | 1, INF, NINF, F_MAX, F_MIN, F_MAX - 1, F_MIN - 1,
           NO_DATA, NO_DATA + 1, NO_DATA - 1, f2b(-1e38), f2b(1e38), f2b(-1.0000000001e39),
           f2b(2.0 ** 53), f2b(-(2.0 ** 53)), 0x0010000000000000, 0x000FFFFFFFFFFFFF]


def gen_float(rng, allow_nan=False, profile="mixed"):
    """profile: 'mixed' (specials, ints, dyadics, random patterns), 'exact'
    (integers |m| <= 2^20), 'finite' (no inf/NaN), 'small'."""
    if profile == "exact":
        return f2b(float(rng.randint(-(1 << 20), 1 << 20)) if rng.random() < 0.3 else float(rng.randint(-20, 20)))
    if profile == "small":
        return f2b(float(rng.randint(-8, 8)))
    r = rng.random()
    if profile == "finite":
        if r < 0.5:
            return f2b(float(rng.randint(-50, 50)))
        if r < 0.8:
            return f2b(rng.randint(-4000, 4000) / 8.0)
        return f2b(rng.uniform(-1e6, 1e6))
    if allow_nan and r < 0.08:
        return rng.choice(NANS)
    if r < 0.30:
        return rng.choice(SPECIAL)
    if r < 0.60:
        return f2b(float(rng.randint(-50, 50)))
    if r < 0.75:
        return f2b(rng.randint(-4000, 4000) / 8.0)
    if r < 0.85:
        return f2b(rng.uniform(-1e6, 1e6))
    while True:
        b = rng.getrandbits(64)
        mag = b & 0x7FFFFFFFFFFFFFFF
        if mag > INF and not allow_nan:
            continue
        return b


NO_DATA_BITS = f2b(-1e39)


def gen_pt(rng, dim, profile="mixed", nan_xy=False):
    if profile == "nom":
        # finite coordinates, every measure = NO_DATA ("no measure")
        c = gen_pt(rng, dim, "finite", nan_xy)
        if dim >= 3:
            c[-1] = NO_DATA_BITS
        return c
    if profile == "nanm":
        # finite X/Y, every measure NaN, every height NaN too for half of the points: the ranges of such shapes are empty
        c = gen_pt(rng, dim, "finite", nan_xy)
        if dim >= 3:
            c[-1] = 0x7FF8000000000000
        if dim == 4 and rng.random() < 0.5:
            c[2] = 0x7FF8000000000001
        return c
    if profile == "posm":
        # finite X/Y, heights and measures in [5, 7]: ranges that do not contain 0
        c = gen_pt(rng, dim, "finite", nan_xy)
        for i in range(2, dim):
            c[i] = f2b(5.0 + rng.randint(0, 8) / 4.0)
        return c
    c = [gen_float(rng, nan_xy, profile), gen_float(rng, nan_xy, profile)]
    if dim == 4:
        c.append(gen_float(rng, True, profile))
    if dim >= 3:
        c.append(gen_float(rng, True, profile))
    return c


def gen_pts(rng, dim, n, profile="mixed", nan_xy=False):
    return [gen_pt(rng, dim, profile, nan_xy) for _ in range(n)]


def flat_pts(pts):
    out = [len(pts)]
    for p in pts:
        out.extend(p)
    return out


def gen_ring_pts(rng, dim, n, profile, closed=None):
    pts = gen_pts(rng, dim, n, profile)
    if closed is None:
        closed = rng.random() < 0.5
    if closed and n >= 1:
        pts.append(list(pts[0]))
    return pts


def gen_ctor(rng, code, profile="mixed", valid=True, max_parts=4, max_pts=6, sub=None):
    """One constructor call for the given type code.  valid=True keeps to
    inputs the constructors accept; valid=False allows the panicking corners
    (empty lists, 1-point polyline parts)."""
    d = dim_of(code)
    lo = 1 if valid else 0
    if code in POINT_CODES:
        return [code] + gen_pt(rng, d, profile)
    if code in MULTIPOINT_CODES:
        return [code] + flat_pts(gen_pts(rng, d, rng.randint(lo, max_pts), profile))
    if code in POLYLINE_CODES:
        minp = 2 if valid else 0
        sub = rng.randint(0, 1) if sub is None else sub
        if sub == 0:
            return [code, 0] + flat_pts(gen_pts(rng, d, rng.randint(minp, max_pts), profile))
        k = rng.randint(lo, max_parts)
        out = [code, 1, k]
        for _ in range(k):
            out += flat_pts(gen_pts(rng, d, rng.randint(minp, max_pts), profile))
        return out
    if code in POLYGON_CODES:
        sub = rng.randint(0, 1) if sub is None else sub
        if sub == 0:
            return [code, 0, rng.randint(0, 1)] + flat_pts(gen_ring_pts(rng, d, rng.randint(lo, max_pts), profile))
        k = rng.randint(lo, max_parts)
        out = [code, 1, k]
        for i in range(k):
            n = rng.randint(lo if i == 0 else 0, max_pts)
            out += [rng.randint(0, 1)] + flat_pts(gen_ring_pts(rng, d, n, profile))
        return out
    if code == 31:
        sub = rng.randint(0, 1) if sub is None else sub
        if sub == 0:
            return [31, 0, rng.randint(0, 5)] + flat_pts(gen_ring_pts(rng, 4, rng.randint(lo, max_pts), profile))
        k = rng.randint(lo, max_parts)
        out = [31, 1, k]
        for i in range(k):
            n = rng.randint(lo if i == 0 else 0, max_pts)
            out += [rng.randint(0, 5)] + flat_pts(gen_ring_pts(rng, 4, n, profile))
        return out
    raise ValueError(code)


def grid_ctor(rng, code, nparts, npts, profile="small"):
    """Deterministic-shape constructor call with exactly nparts parts of npts
    points each (for the dense C18 grid)."""
    d = dim_of(code)
    if code in POINT_CODES:
        return [code] + gen_pt(rng, d, profile)
    if code in MULTIPOINT_CODES:
        return [code] + flat_pts(gen_pts(rng, d, nparts * npts, profile))
    out = [code, 1, nparts]
    for _ in range(nparts):
        if code in POLYLINE_CODES:
            out += flat_pts(gen_pts(rng, d, npts, profile))
        elif code in POLYGON_CODES:
            out += [rng.randint(0, 1)] + flat_pts(gen_pts(rng, d, npts, profile))
        else:
            out += [rng.randint(0, 5)] + flat_pts(gen_pts(rng, 4, npts, profile))
    return out


# ---------------------------------------------------------------- parsing of specs / rendered shapes
class Cur:
    def __init__(self, v, i=0):
        self.v, self.i = v, i

    def next(self):
        x = self.v[self.i]
        self.i += 1
        return x

    def pts(self, d):
        n = self.next()
        return [[self.next() for _ in range(d)] for _ in range(n)]


def parse_shape(c):
    """Parses a rendered shape value (harness / model output) into a dict."""
    code = c.next()
    if code == 0:
        return {"code": 0}
    d = dim_of(code)
    if code in POINT_CODES:
        return {"code": code, "pt": [c.next() for _ in range(d)]}
    nbox = {2: 4, 3: 6, 4: 8}[d]
    box = [c.next() for _ in range(nbox)]
    if code in MULTIPOINT_CODES:
        return {"code": code, "box": box, "parts": [c.pts(d)]}
    k = c.next()
    if code in POLYLINE_CODES:
        return {"code": code, "box": box, "parts": [c.pts(d) for _ in range(k)]}
    tags, parts = [], []
    for _ in range(k):
        tags.append(c.next())
        parts.append(c.pts(d))
    return {"code": code, "box": box, "parts": parts, "tags": tags}
