"""Cases of kind 16: the path-based API on a scratch directory (coq/Run/RunCase.v: case_path,
harness/runner: case_path).  `with_extension` below is an independent transcription of the documented
behaviour of Rust's `Path::with_extension` on a final path component (bytes)."""
import cases as G


def file_stem(name):
    """std::path::Path::file_stem for a plain file name (no separator, not '..')."""
    i = name.rfind(b".")
    if i <= 0:
        return name
    return name[:i]


def extension(name):
    i = name.rfind(b".")
    if i <= 0:
        return None
    return name[i + 1:]


def with_extension(name, ext):
    return file_stem(name) + b"." + ext


def _ops(out, ops, complete):
    out.append(len(ops))
    for o in ops:
        if o[0] == "it":
            out += [0, o[1]]
        elif o[0] == "nth":
            out += [1, o[1]]
        elif o[0] == "seek":
            out += [2, o[1]]
        elif o[0] == "count":
            out.append(3)
        elif o[0] == "hint":
            out.append(4)
        elif o[0] == "skiptake":
            out += [5, o[1], o[2]]
        elif o[0] == "readall":
            out.append(6)
        else:
            raise ValueError(o)


def path_case(complete, stale, name, history, rmname, queries, ops, ending=0):
    """stale: [(name bytes, size)], history: complete=0: list of ("w", ctor) | ("f",);
    complete=1: list of (row kind, ctor); queries: [(name bytes, want_bytes)]."""
    out = [16, int(complete), len(stale)]
    for n, size in stale:
        out += G.pack_bytes(n) + [size]
    out += G.pack_bytes(name)
    if complete:
        out.append(len(history))
        for k, ctor in history:
            out.append(k)
            out += ctor
    else:
        out += [ending, len(history)]
        for c in history:
            if c[0] == "f":
                out.append(0)
            else:
                out.append(1)
                out += c[1]
    out += G.pack_bytes(rmname)
    out.append(len(queries))
    for n, want in queries:
        out += G.pack_bytes(n) + [int(want)]
    _ops(out, ops, complete)
    return out


def parse_path(r, complete, queries, ops):
    """-> dict(calls, removed, nfiles, files {name: None | 'other' | (size, bytes|None)}, read)"""
    c = G.Cur(r)
    n = c.next()
    if n < 0:
        return {"status": n, "rest": r[1:]}
    calls = [c.res_unit() for _ in range(n)]
    removed = c.next()
    nfiles = c.next()
    files = {}
    for q, want in queries:
        s = c.next()
        if s == -1:
            files[q] = None
        elif s == -2:
            files[q] = "other"
        else:
            files[q] = (s, bytes(c.next() for _ in range(s)) if want else None)
    rest = c.v[c.i:]
    return {"status": 0, "calls": calls, "removed": removed, "nfiles": nfiles, "files": files, "read": rest}
