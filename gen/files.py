"""Generators of reference file models (see refesri.py): conformant files with
foreign layouts (C03, C14), and mutations of valid files (C07, C13, C17)."""
import struct

import refesri
import shapes

ALL_TYPES = [1, 3, 5, 8, 11, 13, 15, 18, 21, 23, 25, 28, 31]


def gen_rec(rng, code, profile="mixed", max_parts=4, max_pts=5, allow_degenerate=True, lens=None):
    """A conformant record of the given type with random optional-M choice,
    part structure (including zero parts, zero- and one-vertex parts) and an
    arbitrary stored box."""
    g = lambda nan=False: shapes.gen_float(rng, nan, profile)
    if code == 0:
        return {"code": 0}
    if code in refesri.POINT:
        # every bit pattern is a coordinate: now and then X and/or Y are NaN
        nan_xy = profile == "mixed" and rng.random() < 0.12
        rec = {"code": code, "x": g(nan_xy), "y": g(nan_xy and rng.random() < 0.8)}
        if nan_xy and rng.random() < 0.5:
            rec["x"], rec["y"] = shapes.NANS[0], shapes.NANS[-1]
        if code == 11:
            rec["z"] = g(True)
            rec["m"] = g(True) if rng.random() < 0.6 else None
        if code == 21:
            rec["m"] = g(True)
        return rec
    rec = {"code": code, "box": [g(), g(), g(), g()]}
    if code in refesri.MULTIPOINT:
        n = rng.randint(0 if allow_degenerate else 1, max_pts)
    else:
        if lens is None:
            nparts = rng.randint(0 if allow_degenerate else 1, max_parts)
            lens = [rng.randint(0 if allow_degenerate else 2, max_pts) for _ in range(nparts)]
        nparts = len(lens)
        n = sum(lens)
        offs, acc = [], 0
        for l in lens:
            offs.append(acc)
            acc += l
        rec["offsets"] = offs
        if code == 31:
            rec["kinds"] = [rng.randint(0, 5) for _ in range(nparts)]
    rec["pts"] = [[g(), g()] for _ in range(n)]
    if code in refesri.HAS_Z:
        rec["zrange"] = [g(True), g(True)]
        rec["zs"] = [g(True) for _ in range(n)]
    if code in refesri.HAS_M:
        if rng.random() < 0.6:
            rec["mrange"] = [g(True), g(True)]
            rec["ms"] = [g(True) for _ in range(n)]
        else:
            rec["mrange"], rec["ms"] = None, None
    return rec


def gen_model(rng, code=None, nrecs=None, profile="mixed", null_prob=0.15, **kw):
    code = rng.choice(ALL_TYPES + [0]) if code is None else code
    n = rng.randint(0, 5) if nrecs is None else nrecs
    recs = []
    for i in range(n):
        t = 0 if (code == 0 or rng.random() < null_prob) else code
        num = rng.choice([i + 1, i + 1, rng.randint(-5, 50), rng.randint(-(1 << 31), (1 << 31) - 1)])
        recs.append({"num": num, "shape": gen_rec(rng, t, profile, **kw)})
    box = [shapes.gen_float(rng, True, profile) for _ in range(8)]
    m = {"type": code, "box": box, "records": recs}
    if rng.random() < 0.3:
        m["trailing"] = bytes(rng.getrandbits(8) for _ in range(rng.randint(1, 40)))
    return m


def header_render(model, declared_words):
    """The header a reader must report (wire rendering: len, type, version, box)."""
    b = model["box"]
    return [declared_words, model["type"], 1000, b[0], b[1], b[2], b[3], b[4], b[5], b[6], b[7]]


# ---------------------------------------------------------------- mutations
BOUNDARY = [0, 1, -1, 2, -2, (1 << 30) - 1, 1 << 30, (1 << 30) + 1, (1 << 31) - 1, -(1 << 31), 0x3FFFFFFF,
            (1 << 28), (1 << 29), -(1 << 30), 1000, 50, 49, 51, 12, 6]


def set_i32(data, off, val, endian):
    b = bytearray(data)
    b[off:off + 4] = struct.pack(endian + "i", val)
    return bytes(b)


def get_i32(data, off, endian):
    return struct.unpack(endian + "i", data[off:off + 4])[0]
