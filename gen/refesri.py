"""Independent reference encoder and strict decoder for ESRI shapefiles (.shp
and .shx), written from the "ESRI Shapefile Technical Description" (July 1998).
Shares nothing with the library under test nor with the Coq model.  All
floating-point values are handled as 64-bit patterns (ints).

File model:
  {"type": code, "box": [xmin, ymin, xmax, ymax, zmin, zmax, mmin, mmax],
   "records": [{"num": n, "shape": rec}, ...]}
rec:
  {"code": 0}
  {"code": 1|21|11, "x", "y", ["z"], ["m" | None]}           (PointZ may omit M: m None)
  {"code": 8|28|18, "box": [4], "pts": [[x, y]..], ["zrange", "zs"], ["mrange", "ms" | None]}
  {"code": 3|5|23|25|13|15, "box", "offsets": [..], "pts", [z..], [m.. | None]}
  {"code": 31, "box", "offsets", "kinds", "pts", "zrange", "zs", "mrange"|None, "ms"|None}
"""
import struct

POINT = (1, 21, 11)
MULTIPOINT = (8, 28, 18)
POLY = (3, 5, 23, 25, 13, 15)
HAS_Z = (11, 13, 15, 18, 31)
HAS_M = (21, 23, 25, 28, 11, 13, 15, 18, 31)   # types whose layout has an (optional) M block
VALID = (0, 1, 3, 5, 8, 11, 13, 15, 18, 21, 23, 25, 28, 31)


class Malformed(Exception):
    pass


def _d(b):
    return struct.pack("<Q", b)


def _i(v):
    return struct.pack("<i", v)


def _I(v):
    return struct.pack(">i", v)


def encode_content(rec):
    """Record content: type code + body, as the whitepaper lays it out."""
    code = rec["code"]
    out = _i(code)
    if code == 0:
        return out
    if code in POINT:
        out += _d(rec["x"]) + _d(rec["y"])
        if code == 11:
            out += _d(rec["z"])
        if code in (21, 11) and rec.get("m") is not None:
            out += _d(rec["m"])
        return out
    out += b"".join(_d(v) for v in rec["box"])
    if code in MULTIPOINT:
        out += _i(len(rec["pts"]))
    else:
        out += _i(len(rec["offsets"])) + _i(len(rec["pts"]))
        out += b"".join(_i(o) for o in rec["offsets"])
        if code == 31:
            out += b"".join(_i(k) for k in rec["kinds"])
    out += b"".join(_d(p[0]) + _d(p[1]) for p in rec["pts"])
    if code in HAS_Z:
        out += _d(rec["zrange"][0]) + _d(rec["zrange"][1]) + b"".join(_d(z) for z in rec["zs"])
    if code in HAS_M and rec.get("ms") is not None:
        out += _d(rec["mrange"][0]) + _d(rec["mrange"][1]) + b"".join(_d(m) for m in rec["ms"])
    return out


def encode_header(type_code, box, length_words):
    return (_I(9994) + b"\0" * 20 + _I(length_words) + _i(1000) + _i(type_code)
            + b"".join(_d(v) for v in box))


def encode_record(num, rec):
    content = encode_content(rec)
    assert len(content) % 2 == 0
    return _I(num) + _I(len(content) // 2) + content


def encode_shp(model, field_offsets=None):
    """Returns the .shp bytes.  If field_offsets is a list, appends
    (offset, kind, endianness) for every 32-bit field of the file."""
    body = b""
    for r in model["records"]:
        start = 100 + len(body)
        rb = encode_record(r["num"], r["shape"])
        if field_offsets is not None:
            field_offsets.append((start, "record_number", ">"))
            field_offsets.append((start + 4, "content_length", ">"))
            field_offsets.append((start + 8, "record_type", "<"))
            rec = r["shape"]
            code = rec["code"]
            if code in MULTIPOINT:
                field_offsets.append((start + 12 + 32, "num_points", "<"))
            elif code in POLY or code == 31:
                field_offsets.append((start + 12 + 32, "num_parts", "<"))
                field_offsets.append((start + 12 + 36, "num_points", "<"))
                for k in range(len(rec["offsets"])):
                    field_offsets.append((start + 12 + 40 + 4 * k, "part_offset", "<"))
                if code == 31:
                    for k in range(len(rec["kinds"])):
                        field_offsets.append((start + 12 + 40 + 4 * len(rec["offsets"]) + 4 * k, "patch_kind", "<"))
        body += rb
    total = 100 + len(body)
    if field_offsets is not None:
        field_offsets.append((0, "file_code", ">"))
        field_offsets.append((24, "file_length", ">"))
        field_offsets.append((28, "version", "<"))
        field_offsets.append((32, "file_type", "<"))
    declared = model.get("declared_words", total // 2)
    return encode_header(model["type"], model["box"], declared) + body + model.get("trailing", b"")


def index_of(model):
    """(offset_words, content_words) of every record of the sequential layout."""
    out, pos = [], 100
    for r in model["records"]:
        n = len(encode_content(r["shape"]))
        out.append((pos // 2, n // 2))
        pos += 8 + n
    return out


def encode_shx(model, entries=None, declared_words=None):
    entries = index_of(model) if entries is None else entries
    words = 50 + 4 * len(entries) if declared_words is None else declared_words
    return encode_header(model["type"], model["box"], words) + b"".join(_I(o) + _I(l) for o, l in entries)


# ---------------------------------------------------------------- strict decoder
class _R:
    def __init__(self, b, pos=0):
        self.b, self.pos = b, pos

    def take(self, n):
        if self.pos + n > len(self.b):
            raise Malformed("truncated at %d (+%d)" % (self.pos, n))
        v = self.b[self.pos:self.pos + n]
        self.pos += n
        return v

    def i(self):
        return struct.unpack("<i", self.take(4))[0]

    def I(self):
        return struct.unpack(">i", self.take(4))[0]

    def d(self):
        return struct.unpack("<Q", self.take(8))[0]


def decode_header(r):
    if r.I() != 9994:
        raise Malformed("file code")
    if r.take(20) != b"\0" * 20:
        raise Malformed("unused header words are not zero")
    length = r.I()
    if r.i() != 1000:
        raise Malformed("version")
    t = r.i()
    if t not in VALID:
        raise Malformed("file shape type %d" % t)
    box = [r.d() for _ in range(8)]
    return t, box, length


def decode_content(r, nbytes, file_type):
    """Strictly decodes one record content of nbytes bytes."""
    start = r.pos
    code = r.i()
    if code not in VALID:
        raise Malformed("record type %d" % code)
    if code != 0 and code != file_type:
        raise Malformed("record type %d in a file of type %d" % (code, file_type))
    rec = {"code": code}
    left = lambda: nbytes - (r.pos - start)
    if code == 0:
        pass
    elif code in POINT:
        rec["x"], rec["y"] = r.d(), r.d()
        if code == 11:
            rec["z"] = r.d()
        if code in (21, 11):
            if left() == 8:
                rec["m"] = r.d()
            elif left() == 0 and code == 11:
                rec["m"] = None
            else:
                raise Malformed("point record size")
    else:
        rec["box"] = [r.d() for _ in range(4)]
        if code in MULTIPOINT:
            n = r.i()
        else:
            nparts, n = r.i(), r.i()
            if nparts < 0:
                raise Malformed("negative part count")
        if n < 0:
            raise Malformed("negative point count")
        if code not in MULTIPOINT:
            rec["offsets"] = [r.i() for _ in range(nparts)]
            offs = rec["offsets"]
            if offs and offs[0] != 0:
                raise Malformed("first part offset is not 0")
            for a, b in zip(offs, offs[1:]):
                if b < a:
                    raise Malformed("part offsets not ascending")
            if offs and offs[-1] > n:
                raise Malformed("part offset beyond point count")
            if code == 31:
                rec["kinds"] = [r.i() for _ in range(nparts)]
                if any(k not in range(6) for k in rec["kinds"]):
                    raise Malformed("patch kind")
        rec["pts"] = [[r.d(), r.d()] for _ in range(n)]
        if code in HAS_Z:
            rec["zrange"] = [r.d(), r.d()]
            rec["zs"] = [r.d() for _ in range(n)]
        if code in HAS_M:
            if left() == 16 + 8 * n:
                rec["mrange"] = [r.d(), r.d()]
                rec["ms"] = [r.d() for _ in range(n)]
            elif left() == 0:
                rec["mrange"], rec["ms"] = None, None
            else:
                raise Malformed("M block size")
    if left() != 0:
        raise Malformed("content length %d does not match the layout (%d left)" % (nbytes, left()))
    return rec


def strict_decode_shp(b, require_numbering=False, allow_trailing=False):
    """Strict validator/decoder.  Raises Malformed on any deviation from the
    whitepaper layout.  Returns the file model."""
    r = _R(b)
    t, box, length = decode_header(r)
    if length * 2 != len(b):
        if not (allow_trailing and 100 <= length * 2 <= len(b)):
            raise Malformed("header length %d words, file has %d bytes" % (length, len(b)))
    end = length * 2
    records = []
    while r.pos < end:
        num, words = r.I(), r.I()
        if words < 2:
            raise Malformed("content length %d" % words)
        if r.pos + words * 2 > end:
            raise Malformed("record runs past the declared length")
        if require_numbering and num != len(records) + 1:
            raise Malformed("record number %d at position %d" % (num, len(records) + 1))
        rec = decode_content(r, words * 2, t)
        records.append({"num": num, "shape": rec})
    if r.pos != end:
        raise Malformed("gap or overlap at the end")
    return {"type": t, "box": box, "records": records}


def strict_decode_shx(b):
    r = _R(b)
    t, box, length = decode_header(r)
    if length * 2 != len(b) or (len(b) - 100) % 8 != 0:
        raise Malformed("index length")
    n = (len(b) - 100) // 8
    return {"type": t, "box": box, "entries": [(r.I(), r.I()) for _ in range(n)]}


# ---------------------------------------------------------------- what a record denotes
NO_DATA = 0xC8078287F49C4A1D
EXP_ONES = 0x7FF0000000000000


def _f(b):
    return struct.unpack("<d", struct.pack("<Q", b))[0]


def norm_m(b):
    """Measure normalisation on read of multi-vertex shapes: NaN and values at
    or below -1e39 become exactly NO_DATA."""
    v = _f(b)
    if v != v or v <= -10e38:
        return NO_DATA
    return b


def ring_is_inner(pts):
    """Sign of the shoelace sum in IEEE double arithmetic, left to right from
    -0.0, as `ring_type_from_points_ordering` computes it."""
    s = -0.0
    for (x0, y0), (x1, y1) in zip(pts, pts[1:]):
        try:
            s = s + (_f(x1) - _f(x0)) * (_f(y1) + _f(y0))
        except OverflowError:   # pragma: no cover  (float ops do not raise)
            raise
    return (s / 2.0) < 0.0


def denote(rec):
    """The value a reader must return for the record, in the rendering used on
    the wire (see coq/Run/Wire.v r_shape)."""
    code = rec["code"]
    if code == 0:
        return [0]
    if code == 1:
        return [1, rec["x"], rec["y"]]
    if code == 21:
        return [21, rec["x"], rec["y"], rec["m"]]
    if code == 11:
        return [11, rec["x"], rec["y"], rec["z"], NO_DATA if rec.get("m") is None else rec["m"]]
    n = len(rec["pts"])
    has_z, has_m = code in HAS_Z, code in HAS_M
    ms_present = has_m and rec.get("ms") is not None
    zs = rec["zs"] if has_z else [None] * n
    ms = [norm_m(m) for m in rec["ms"]] if ms_present else [NO_DATA] * n

    def pt(i):
        p = list(rec["pts"][i])
        if has_z:
            p.append(zs[i])
        if has_m:
            p.append(ms[i])
        return p
    out = [code] + list(rec["box"])
    if has_z:
        out += list(rec["zrange"])
    if has_m:
        out += list(rec["mrange"]) if ms_present else [NO_DATA, NO_DATA]
    if code in MULTIPOINT:
        out.append(n)
        for i in range(n):
            out += pt(i)
        return out
    offs = rec["offsets"]
    bounds = list(offs) + [n]
    out.append(len(offs))
    for k in range(len(offs)):
        idx = range(bounds[k], bounds[k + 1])
        if code in (5, 25, 15):
            out.append(1 if ring_is_inner([rec["pts"][i] for i in idx]) else 0)
        elif code == 31:
            out.append(rec["kinds"][k])
        out.append(len(idx))
        for i in idx:
            out += pt(i)
    return out
