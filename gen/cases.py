"""Builders and parsers for the wire format of writer histories (kind 4) and
reader histories (kind 5); see coq/Run/RunCase.v."""
import shapes


def pack_bytes(b):
    out = [len(b)]
    for i in range(0, len(b), 8):
        out.append(int.from_bytes(b[i:i + 8], "little"))
    return out


class Cur(shapes.Cur):
    def bytes(self):
        n = self.next()
        out = bytearray()
        for w in range((n + 7) // 8):
            v = self.next()
            out += v.to_bytes(8, "little")[:min(8, n - 8 * w)]
        return bytes(out)

    def res_unit(self):
        tag = self.next()
        if tag == 0:
            return ("ok",)
        if tag == 1:
            return ("err",) + tuple(self.err())
        return ("panic",)

    def err(self):
        k = self.next()
        n = {5: 1, 6: 1, 7: 1, 8: 2}.get(k, 0)
        return [k] + [self.next() for _ in range(n)]

    def at_end(self):
        return self.i >= len(self.v)


ERR_NAMES = {1: "Io(UnexpectedEof)", 2: "Io(InvalidData)", 3: "Io(injected)", 4: "Io(WriteZero)", 5: "InvalidFileCode",
             6: "InvalidShapeType", 7: "InvalidPatchType", 8: "MismatchShapeType", 9: "InvalidShapeRecordSize",
             10: "MissingIndexFile", 11: "DbaseError", 12: "MissingDbf", 13: "Io(other)"}


# ---------------------------------------------------------------- writer histories
def whist_case(has_shx, ending, calls, fault=None):
    """calls: list of ("w", ctor_spec) | ("f",) | ("h",); fault = (dest 1|2, k, persistent)."""
    fd, fk, fp = fault if fault else (0, 0, 0)
    out = [4, int(has_shx), ending, fd, fk, int(fp), len(calls)]
    for c in calls:
        if c[0] == "f":
            out.append(0)
        elif c[0] == "h":
            out.append(2)
        else:
            out.append(1)
            out += c[1]
    return out


def parse_dev(c):
    d = {"buf": c.bytes(), "flushed": c.next(), "ops": c.next()}
    n = c.next()
    log = []
    for _ in range(n):
        k = c.next()
        if k == 0:
            log.append(("w", c.bytes()))
        elif k == 1:
            log.append(("s", c.next()))
        elif k == 2:
            log.append(("e",))
        else:
            log.append(("fl",))
    d["log"] = log
    return d


def parse_whist(r):
    """Result of a writer history: None if a constructor refused its input."""
    if r in ([-3], [-4]):
        return {"special": r[0]}
    c = Cur(r)
    n = c.next()
    results = [c.res_unit() for _ in range(n)]
    shp = parse_dev(c)
    shx = parse_dev(c)
    assert c.at_end(), "trailing output in whist result"
    return {"results": results, "shp": shp, "shx": shx}


def apply_log(log):
    """Replays an operation log on an empty buffer (Cursor<Vec<u8>> semantics)."""
    buf, pos = bytearray(), 0
    for op in log:
        if op[0] == "w":
            b = op[1]
            if len(buf) < pos:
                buf += b"\0" * (pos - len(buf))
            buf[pos:pos + len(b)] = b
            pos += len(b)
        elif op[0] == "s":
            pos = op[1]
        elif op[0] == "e":
            pos = len(buf)
    return bytes(buf)


# ---------------------------------------------------------------- reader histories
def read_case(req, shp, shx, ops, fault=None, sched=()):
    """req: -1 generic or a type code; ops: list of ("it", j) | ("nth", i) |
    ("seek", k) | ("count",) | ("hint",); fault = (k, persistent)."""
    fk, fp = fault if fault else (-1, 0)
    out = [5, req, 1 if shx is not None else 0, fk, int(fp), len(sched)] + list(sched)
    out += pack_bytes(shp)
    if shx is not None:
        out += pack_bytes(shx)
    out.append(len(ops))
    for o in ops:
        if o[0] == "it":
            out += [0, o[1]]
        elif o[0] == "nth":
            out += [1, o[1]]
        elif o[0] == "seek":
            out += [2, o[1]]
        elif o[0] == "count":
            out.append(3)
        elif o[0] == "skiptake":
            out += [5, o[1], o[2]]
        elif o[0] == "readall":
            out.append(6)
        elif o[0] == "probe":
            out += [7, o[1], o[2]]
        else:
            out.append(4)
    return out


def _item(c):
    tag = c.next()
    if tag == 0:
        start = c.i
        shapes.parse_shape(c)
        return ("ok", c.v[start:c.i])
    if tag == 1:
        return ("err",) + tuple(c.err())
    return ("panic",)


def parse_read(r, ops):
    """Result of a reader history, given the ops that were requested."""
    if r == [2]:
        return {"panic": True}
    c = Cur(r)
    tag = c.next()
    if tag == 1:
        return {"open_err": c.err()}
    if tag == 2:
        return {"panic": True}
    hdr = [c.next() for _ in range(11)]
    outs = []
    for o in ops:
        if o[0] == "it":
            n = c.next()
            items = [_item(c) for _ in range(n)]
            outs.append({"items": items, "ended": c.next()})
        elif o[0] in ("nth", "probe"):
            outs.append({"nth": None if c.next() == 0 else _item(c)})
        elif o[0] == "seek":
            outs.append({"seek": c.res_unit()})
        elif o[0] == "count":
            t = c.next()
            outs.append({"count": c.next() if t == 0 else ("err",) + tuple(c.err())})
        elif o[0] == "skiptake":
            n = c.next()
            outs.append({"items": [_item(c) for _ in range(n)]})
        elif o[0] == "readall":
            t = c.next()
            if t == 0:
                n = c.next()
                vals = []
                for _ in range(n):
                    start = c.i
                    shapes.parse_shape(c)
                    vals.append(c.v[start:c.i])
                outs.append({"all": ("ok", vals)})
            elif t == 1:
                outs.append({"all": ("err",) + tuple(c.err())})
            else:
                outs.append({"all": ("panic",)})
        else:
            t = c.next()
            outs.append({"hint": None if t == 0 else (c.next() if t == 1 else (c.next(), c.next()))})
    assert c.at_end(), "trailing output in read result"
    return {"header": hdr, "ops": outs}
