//! Wire format: a case and its result are lists of integers.  Floats travel as
//! their 64-bit patterns.  The same format is parsed by the Gallina function
//! `run_case` (coq/Run/Wire.v).
use shapefile::record::polygon::GenericPolygon;
use shapefile::record::polyline::GenericPolyline;
use shapefile::record::multipoint::GenericMultipoint;
use shapefile::record::traits::{GrowablePoint, HasXY, ShrinkablePoint};
use shapefile::record::GenericBBox;
use shapefile::*;

pub type W = i128;

pub struct Cur<'a> {
    pub v: &'a [W],
    pub i: usize,
}

#[derive(Debug)]
pub struct BadCase;

impl<'a> Cur<'a> {
    pub fn new(v: &'a [W]) -> Self {
        Cur { v, i: 0 }
    }
    pub fn next(&mut self) -> Result<W, BadCase> {
        let r = self.v.get(self.i).copied().ok_or(BadCase);
        self.i += 1;
        r
    }
    pub fn n(&mut self) -> Result<usize, BadCase> {
        let v = self.next()?;
        if !(0..=1_000_000).contains(&v) {
            return Err(BadCase);
        }
        Ok(v as usize)
    }
    pub fn f(&mut self) -> Result<f64, BadCase> {
        let v = self.next()?;
        if !(0..=(u64::MAX as i128)).contains(&v) {
            return Err(BadCase);
        }
        Ok(f64::from_bits(v as u64))
    }
    pub fn rest(&mut self) -> &'a [W] {
        let r = &self.v[self.i.min(self.v.len())..];
        self.i = self.v.len();
        r
    }
    pub fn at_end(&self) -> bool {
        self.i >= self.v.len()
    }
}

/// Byte strings travel packed: length, then groups of up to 8 bytes as
/// little-endian integers.
pub fn render_bytes(b: &[u8], out: &mut Vec<W>) {
    out.push(b.len() as W);
    for ch in b.chunks(8) {
        let mut v: u64 = 0;
        for (i, x) in ch.iter().enumerate() {
            v |= (*x as u64) << (8 * i);
        }
        out.push(v as W);
    }
}

pub fn read_bytes(c: &mut Cur) -> Result<Vec<u8>, BadCase> {
    let n = c.n()?;
    let mut v = Vec::with_capacity(n);
    let words = (n + 7) / 8;
    for w in 0..words {
        let x = c.next()?;
        if !(0..=(u64::MAX as i128)).contains(&x) {
            return Err(BadCase);
        }
        let x = x as u64;
        for i in 0..8 {
            if w * 8 + i < n {
                v.push((x >> (8 * i)) as u8);
            }
        }
    }
    Ok(v)
}

pub fn fb(x: f64) -> W {
    x.to_bits() as W
}

pub trait Pt:
    Copy + PartialEq + HasXY + ShrinkablePoint + GrowablePoint + std::panic::UnwindSafe + 'static
{
    fn read(c: &mut Cur) -> Result<Self, BadCase>;
    fn render(&self, out: &mut Vec<W>);
    fn render_box(b: &GenericBBox<Self>, out: &mut Vec<W>);
}

impl Pt for Point {
    fn read(c: &mut Cur) -> Result<Self, BadCase> {
        Ok(Point::new(c.f()?, c.f()?))
    }
    fn render(&self, out: &mut Vec<W>) {
        out.extend([fb(self.x), fb(self.y)]);
    }
    fn render_box(b: &GenericBBox<Self>, out: &mut Vec<W>) {
        out.extend([fb(b.min.x), fb(b.min.y), fb(b.max.x), fb(b.max.y)]);
    }
}
impl Pt for PointM {
    fn read(c: &mut Cur) -> Result<Self, BadCase> {
        Ok(PointM::new(c.f()?, c.f()?, c.f()?))
    }
    fn render(&self, out: &mut Vec<W>) {
        out.extend([fb(self.x), fb(self.y), fb(self.m)]);
    }
    fn render_box(b: &GenericBBox<Self>, out: &mut Vec<W>) {
        out.extend([fb(b.min.x), fb(b.min.y), fb(b.max.x), fb(b.max.y), fb(b.min.m), fb(b.max.m)]);
    }
}
impl Pt for PointZ {
    fn read(c: &mut Cur) -> Result<Self, BadCase> {
        Ok(PointZ::new(c.f()?, c.f()?, c.f()?, c.f()?))
    }
    fn render(&self, out: &mut Vec<W>) {
        out.extend([fb(self.x), fb(self.y), fb(self.z), fb(self.m)]);
    }
    fn render_box(b: &GenericBBox<Self>, out: &mut Vec<W>) {
        out.extend([
            fb(b.min.x), fb(b.min.y), fb(b.max.x), fb(b.max.y),
            fb(b.min.z), fb(b.max.z), fb(b.min.m), fb(b.max.m),
        ]);
    }
}

fn read_pts<P: Pt>(c: &mut Cur) -> Result<Vec<P>, BadCase> {
    let n = c.n()?;
    let mut v = Vec::with_capacity(n);
    for _ in 0..n {
        v.push(P::read(c)?);
    }
    Ok(v)
}

fn render_pts<P: Pt>(ps: &[P], out: &mut Vec<W>) {
    out.push(ps.len() as W);
    for p in ps {
        p.render(out);
    }
}

/// A constructor call, parsed but not yet executed (execution may panic).
pub enum Ctor {
    Null,
    P(Point),
    PM(PointM),
    PZ(PointZ),
    Mp(Vec<Point>),
    MpM(Vec<PointM>),
    MpZ(Vec<PointZ>),
    PlNew(Vec<Point>),
    PlNewM(Vec<PointM>),
    PlNewZ(Vec<PointZ>),
    Pl(Vec<Vec<Point>>),
    PlM(Vec<Vec<PointM>>),
    PlZ(Vec<Vec<PointZ>>),
    PgNew(PolygonRing<Point>),
    PgNewM(PolygonRing<PointM>),
    PgNewZ(PolygonRing<PointZ>),
    Pg(Vec<PolygonRing<Point>>),
    PgM(Vec<PolygonRing<PointM>>),
    PgZ(Vec<PolygonRing<PointZ>>),
    PatchNew(Patch),
    Patches(Vec<Patch>),
}

fn read_ring<P: Pt>(c: &mut Cur) -> Result<PolygonRing<P>, BadCase> {
    let role = c.next()?;
    let pts = read_pts::<P>(c)?;
    match role {
        0 => Ok(PolygonRing::Outer(pts)),
        1 => Ok(PolygonRing::Inner(pts)),
        _ => Err(BadCase),
    }
}

fn read_patch(c: &mut Cur) -> Result<Patch, BadCase> {
    let k = c.next()?;
    let pts = read_pts::<PointZ>(c)?;
    Ok(match k {
        0 => Patch::TriangleStrip(pts),
        1 => Patch::TriangleFan(pts),
        2 => Patch::OuterRing(pts),
        3 => Patch::InnerRing(pts),
        4 => Patch::FirstRing(pts),
        5 => Patch::Ring(pts),
        _ => return Err(BadCase),
    })
}

fn read_list<T>(c: &mut Cur, f: impl Fn(&mut Cur) -> Result<T, BadCase>) -> Result<Vec<T>, BadCase> {
    let n = c.n()?;
    let mut v = Vec::with_capacity(n);
    for _ in 0..n {
        v.push(f(c)?);
    }
    Ok(v)
}

pub fn read_ctor(c: &mut Cur) -> Result<Ctor, BadCase> {
    let code = c.next()?;
    Ok(match code {
        0 => Ctor::Null,
        1 => Ctor::P(Point::read(c)?),
        21 => Ctor::PM(PointM::read(c)?),
        11 => Ctor::PZ(PointZ::read(c)?),
        8 => Ctor::Mp(read_pts(c)?),
        28 => Ctor::MpM(read_pts(c)?),
        18 => Ctor::MpZ(read_pts(c)?),
        3 | 23 | 13 => {
            let sub = c.next()?;
            match (code, sub) {
                (3, 0) => Ctor::PlNew(read_pts(c)?),
                (23, 0) => Ctor::PlNewM(read_pts(c)?),
                (13, 0) => Ctor::PlNewZ(read_pts(c)?),
                (3, 1) => Ctor::Pl(read_list(c, read_pts::<Point>)?),
                (23, 1) => Ctor::PlM(read_list(c, read_pts::<PointM>)?),
                (13, 1) => Ctor::PlZ(read_list(c, read_pts::<PointZ>)?),
                _ => return Err(BadCase),
            }
        }
        5 | 25 | 15 => {
            let sub = c.next()?;
            match (code, sub) {
                (5, 0) => Ctor::PgNew(read_ring(c)?),
                (25, 0) => Ctor::PgNewM(read_ring(c)?),
                (15, 0) => Ctor::PgNewZ(read_ring(c)?),
                (5, 1) => Ctor::Pg(read_list(c, read_ring::<Point>)?),
                (25, 1) => Ctor::PgM(read_list(c, read_ring::<PointM>)?),
                (15, 1) => Ctor::PgZ(read_list(c, read_ring::<PointZ>)?),
                _ => return Err(BadCase),
            }
        }
        31 => {
            let sub = c.next()?;
            match sub {
                0 => Ctor::PatchNew(read_patch(c)?),
                1 => Ctor::Patches(read_list(c, read_patch)?),
                _ => return Err(BadCase),
            }
        }
        _ => return Err(BadCase),
    })
}

/// Runs the public constructor; a panic is reported as Err(()).
pub fn build(ctor: Ctor) -> Result<Shape, ()> {
    std::panic::catch_unwind(move || match ctor {
        Ctor::Null => Shape::NullShape,
        Ctor::P(p) => Shape::Point(p),
        Ctor::PM(p) => Shape::PointM(p),
        Ctor::PZ(p) => Shape::PointZ(p),
        Ctor::Mp(v) => Shape::Multipoint(Multipoint::new(v)),
        Ctor::MpM(v) => Shape::MultipointM(MultipointM::new(v)),
        Ctor::MpZ(v) => Shape::MultipointZ(MultipointZ::new(v)),
        Ctor::PlNew(v) => Shape::Polyline(Polyline::new(v)),
        Ctor::PlNewM(v) => Shape::PolylineM(PolylineM::new(v)),
        Ctor::PlNewZ(v) => Shape::PolylineZ(PolylineZ::new(v)),
        Ctor::Pl(v) => Shape::Polyline(Polyline::with_parts(v)),
        Ctor::PlM(v) => Shape::PolylineM(PolylineM::with_parts(v)),
        Ctor::PlZ(v) => Shape::PolylineZ(PolylineZ::with_parts(v)),
        Ctor::PgNew(r) => Shape::Polygon(Polygon::new(r)),
        Ctor::PgNewM(r) => Shape::PolygonM(PolygonM::new(r)),
        Ctor::PgNewZ(r) => Shape::PolygonZ(PolygonZ::new(r)),
        Ctor::Pg(v) => Shape::Polygon(Polygon::with_rings(v)),
        Ctor::PgM(v) => Shape::PolygonM(PolygonM::with_rings(v)),
        Ctor::PgZ(v) => Shape::PolygonZ(PolygonZ::with_rings(v)),
        Ctor::PatchNew(p) => Shape::Multipatch(Multipatch::new(p)),
        Ctor::Patches(v) => Shape::Multipatch(Multipatch::with_parts(v)),
    })
    .map_err(|_| ())
}

fn render_multipoint<P: Pt>(code: W, s: &GenericMultipoint<P>, out: &mut Vec<W>) {
    out.push(code);
    P::render_box(s.bbox(), out);
    render_pts(s.points(), out);
}
fn render_polyline<P: Pt>(code: W, s: &GenericPolyline<P>, out: &mut Vec<W>) {
    out.push(code);
    P::render_box(s.bbox(), out);
    out.push(s.parts().len() as W);
    for p in s.parts() {
        render_pts(p, out);
    }
}
fn render_polygon<P: Pt>(code: W, s: &GenericPolygon<P>, out: &mut Vec<W>) {
    out.push(code);
    P::render_box(s.bbox(), out);
    out.push(s.rings().len() as W);
    for r in s.rings() {
        match r {
            PolygonRing::Outer(p) => {
                out.push(0);
                render_pts(p, out)
            }
            PolygonRing::Inner(p) => {
                out.push(1);
                render_pts(p, out)
            }
        }
    }
}

pub fn render_shape(s: &Shape, out: &mut Vec<W>) {
    match s {
        Shape::NullShape => out.push(0),
        Shape::Point(p) => {
            out.push(1);
            p.render(out)
        }
        Shape::PointM(p) => {
            out.push(21);
            p.render(out)
        }
        Shape::PointZ(p) => {
            out.push(11);
            p.render(out)
        }
        Shape::Multipoint(s) => render_multipoint(8, s, out),
        Shape::MultipointM(s) => render_multipoint(28, s, out),
        Shape::MultipointZ(s) => render_multipoint(18, s, out),
        Shape::Polyline(s) => render_polyline(3, s, out),
        Shape::PolylineM(s) => render_polyline(23, s, out),
        Shape::PolylineZ(s) => render_polyline(13, s, out),
        Shape::Polygon(s) => render_polygon(5, s, out),
        Shape::PolygonM(s) => render_polygon(25, s, out),
        Shape::PolygonZ(s) => render_polygon(15, s, out),
        Shape::Multipatch(s) => {
            out.push(31);
            PointZ::render_box(s.bbox(), out);
            out.push(s.patches().len() as W);
            for p in s.patches() {
                let (k, pts) = match p {
                    Patch::TriangleStrip(p) => (0, p),
                    Patch::TriangleFan(p) => (1, p),
                    Patch::OuterRing(p) => (2, p),
                    Patch::InnerRing(p) => (3, p),
                    Patch::FirstRing(p) => (4, p),
                    Patch::Ring(p) => (5, p),
                };
                out.push(k);
                render_pts(pts, out);
            }
        }
    }
}

pub fn render_error(e: &Error, out: &mut Vec<W>) {
    use std::io::ErrorKind;
    match e {
        Error::IoError(io) => match io.kind() {
            ErrorKind::UnexpectedEof => out.push(1),
            ErrorKind::InvalidData => out.push(2),
            ErrorKind::Other if io.to_string() == "injected" => out.push(3),
            ErrorKind::WriteZero => out.push(4),
            _ => out.push(13),
        },
        Error::InvalidFileCode(c) => out.extend([5, *c as W]),
        Error::InvalidShapeType(c) => out.extend([6, *c as W]),
        Error::InvalidPatchType(c) => out.extend([7, *c as W]),
        Error::MismatchShapeType { requested, actual } => {
            out.extend([8, *requested as i32 as W, *actual as i32 as W])
        }
        Error::InvalidShapeRecordSize => out.push(9),
        Error::MissingIndexFile => out.push(10),
        Error::DbaseError(_) => out.push(11),
        Error::MissingDbf => out.push(12),
    }
}
