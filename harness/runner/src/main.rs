//! Correspondence harness: runs the real shapefile library on cases read from
//! stdin (one list of integers per line) and prints one canonical result line
//! per case.  Built on every check run against /repo's current working tree.
mod devices;
mod wire;

use shapefile::record::{EsriShape, WritableShape};
use shapefile::*;
use std::io::{BufRead, Write};
use devices::*;
use std::convert::TryFrom;
use wire::*;

/// A Write sink that records the length of every `write` call.
#[derive(Default)]
struct ChunkLog {
    buf: Vec<u8>,
    chunks: Vec<usize>,
}
impl Write for ChunkLog {
    fn write(&mut self, b: &[u8]) -> std::io::Result<usize> {
        self.buf.extend_from_slice(b);
        self.chunks.push(b.len());
        Ok(b.len())
    }
    fn flush(&mut self) -> std::io::Result<()> {
        Ok(())
    }
}

macro_rules! with_concrete {
    ($shape:expr, $s:ident => $body:expr, $null:expr) => {
        match $shape {
            Shape::NullShape => $null,
            Shape::Point($s) => $body,
            Shape::PointM($s) => $body,
            Shape::PointZ($s) => $body,
            Shape::Polyline($s) => $body,
            Shape::PolylineM($s) => $body,
            Shape::PolylineZ($s) => $body,
            Shape::Polygon($s) => $body,
            Shape::PolygonM($s) => $body,
            Shape::PolygonZ($s) => $body,
            Shape::Multipoint($s) => $body,
            Shape::MultipointM($s) => $body,
            Shape::MultipointZ($s) => $body,
            Shape::Multipatch($s) => $body,
        }
    };
}

const K_TABLE: W = 1;
const K_CTOR: W = 2;
const K_ENC: W = 3;
const K_WHIST: W = 4;
const K_READ: W = 5;
const K_CONV: W = 7;
const K_ALLOC: W = 8;
const K_PAIR: W = 9;
const K_COPY: W = 14;
const K_PAIR_ALLOC: W = 15;

fn case_table(c: &mut Cur) -> Result<Vec<W>, BadCase> {
    let code = c.next()?;
    if code < i32::MIN as W || code > i32::MAX as W {
        return Err(BadCase);
    }
    let mut out = vec![];
    match ShapeType::from(code as i32) {
        None => out.push(0),
        Some(t) => {
            out.extend([
                1,
                t as i32 as W,
                t.has_z() as W,
                t.has_m() as W,
                t.is_multipart() as W,
            ]);
            out.extend(t.to_string().bytes().map(|b| b as W));
        }
    }
    Ok(out)
}

fn case_ctor(c: &mut Cur) -> Result<Vec<W>, BadCase> {
    let ctor = read_ctor(c)?;
    let mut out = vec![];
    match build(ctor) {
        Ok(s) => {
            out.push(0);
            render_shape(&s, &mut out);
        }
        Err(()) => out.push(2),
    }
    Ok(out)
}

fn case_enc(c: &mut Cur) -> Result<Vec<W>, BadCase> {
    let ctor = read_ctor(c)?;
    let mut out = vec![];
    match build(ctor) {
        Ok(s) => {
            let r = std::panic::catch_unwind(|| {
                let mut log = ChunkLog::default();
                let size: usize = with_concrete!(&s, x => {
                    x.write_to(&mut log).expect("write to memory");
                    x.size_in_bytes()
                }, 0);
                (size, log)
            });
            match r {
                Ok((size, log)) => {
                    out.push(0);
                    out.push(size as W);
                    out.push(log.chunks.len() as W);
                    out.extend(log.chunks.iter().map(|&l| l as W));
                    render_bytes(&log.buf, &mut out);
                }
                Err(_) => out.push(2),
            }
        }
        Err(()) => out.push(2),
    }
    Ok(out)
}

fn render_unit_res(r: &Result<(), Error>, out: &mut Vec<W>) {
    match r {
        Ok(()) => out.push(0),
        Err(e) => {
            out.push(1);
            render_error(e, out)
        }
    }
}

fn render_dev(d: &Dest, out: &mut Vec<W>) {
    let d = d.0.borrow();
    render_bytes(&d.buf, out);
    out.push(d.flushed as W);
    out.push(d.ops as W);
    out.push(d.log.len() as W);
    for op in &d.log {
        match op {
            Op::Write(b) => {
                out.push(0);
                render_bytes(b, out)
            }
            Op::SeekStart(p) => out.extend([1, *p as W]),
            Op::SeekEnd => out.push(2),
            Op::Flush => out.push(3),
        }
    }
}

enum Call {
    Finalize,
    Write(Shape),
    Heal,
}

macro_rules! write_shapes_as {
    ($w:expr, $shapes:expr, $T:ty) => {{
        let v: Result<Vec<$T>, _> = $shapes.into_iter().map(<$T>::try_from).collect();
        match v {
            Ok(v) => Some($w.write_shapes(&v)),
            Err(_) => None,
        }
    }};
}

fn case_whist(c: &mut Cur) -> Result<Vec<W>, BadCase> {
    let has_shx = c.next()? == 1;
    let ending = c.next()?;
    let fdest = c.next()?;
    let fk = c.next()?;
    let fpers = c.next()? == 1;
    let ncalls = c.n()?;
    let mut calls = vec![];
    for _ in 0..ncalls {
        match c.next()? {
            0 => calls.push(Call::Finalize),
            1 => {
                let ctor = read_ctor(c)?;
                match build(ctor) {
                    Ok(Shape::NullShape) => return Err(BadCase),
                    Ok(s) => calls.push(Call::Write(s)),
                    Err(()) => return Ok(vec![-3]),
                }
            }
            2 => calls.push(Call::Heal),
            _ => return Err(BadCase),
        }
    }
    if !c.at_end() {
        return Err(BadCase);
    }
    let shp = Dest::default();
    let shx = Dest::default();
    if fdest == 1 {
        shp.0.borrow_mut().fault = Some((fk as usize, fpers));
    } else if fdest == 2 {
        shx.0.borrow_mut().fault = Some((fk as usize, fpers));
    } else if fdest == 3 {
        // short writes: both destinations accept at most chunks[i] bytes on the i-th raw write
        let c = (fk.max(1)) as usize;
        let sched: Vec<usize> = (0..200_000usize)
            .map(|i| if fpers { c } else { [c, 1, c + 3, 2, c * 2][i % 5] })
            .collect();
        shp.0.borrow_mut().chunks = sched.clone();
        shx.0.borrow_mut().chunks = sched;
    }
    let (shp2, shx2) = (shp.clone(), shx.clone());
    let r = std::panic::catch_unwind(std::panic::AssertUnwindSafe(move || -> Option<Vec<Result<(), Error>>> {
        let mut w = if has_shx {
            ShapeWriter::with_shx(shp2.clone(), shx2.clone())
        } else {
            ShapeWriter::new(shp2.clone())
        };
        let mut results = vec![];
        if ending == 2 || (ending >= 3 && ending != 100) {
            // ending 2: everything through `write_shapes`; ending 3 + k: the last k calls (all writes) are handed
            // together to `write_shapes` after the calls before them were made one by one
            let ntail = if ending == 2 { calls.len() } else { ((ending - 3) as usize).min(calls.len()) };
            let mut calls = calls;
            let tail = calls.split_off(calls.len() - ntail);
            for call in &calls {
                match call {
                    Call::Finalize => results.push(w.finalize()),
                    Call::Heal => {
                        shp2.0.borrow_mut().fault = None;
                        shx2.0.borrow_mut().fault = None;
                        results.push(Ok(()));
                    }
                    Call::Write(s) => {
                        let r = with_concrete!(s, x => w.write_shape(x), unreachable!());
                        results.push(r);
                    }
                }
            }
            let mut shapes = vec![];
            for call in tail {
                match call {
                    Call::Write(s) => shapes.push(s),
                    _ => return None,
                }
            }
            let r = match shapes.first() {
                None => Some(w.write_shapes(&Vec::<Point>::new())),
                Some(Shape::Point(_)) => write_shapes_as!(w, shapes, Point),
                Some(Shape::PointM(_)) => write_shapes_as!(w, shapes, PointM),
                Some(Shape::PointZ(_)) => write_shapes_as!(w, shapes, PointZ),
                Some(Shape::Polyline(_)) => write_shapes_as!(w, shapes, Polyline),
                Some(Shape::PolylineM(_)) => write_shapes_as!(w, shapes, PolylineM),
                Some(Shape::PolylineZ(_)) => write_shapes_as!(w, shapes, PolylineZ),
                Some(Shape::Polygon(_)) => write_shapes_as!(w, shapes, Polygon),
                Some(Shape::PolygonM(_)) => write_shapes_as!(w, shapes, PolygonM),
                Some(Shape::PolygonZ(_)) => write_shapes_as!(w, shapes, PolygonZ),
                Some(Shape::Multipoint(_)) => write_shapes_as!(w, shapes, Multipoint),
                Some(Shape::MultipointM(_)) => write_shapes_as!(w, shapes, MultipointM),
                Some(Shape::MultipointZ(_)) => write_shapes_as!(w, shapes, MultipointZ),
                Some(Shape::Multipatch(_)) => write_shapes_as!(w, shapes, Multipatch),
                Some(Shape::NullShape) => None,
            };
            results.push(r?);
        } else {
            for call in &calls {
                match call {
                    Call::Finalize => results.push(w.finalize()),
                    Call::Heal => {
                        shp2.0.borrow_mut().fault = None;
                        shx2.0.borrow_mut().fault = None;
                        results.push(Ok(()));
                    }
                    Call::Write(s) => {
                        let r = with_concrete!(s, x => w.write_shape(x), unreachable!());
                        results.push(r);
                    }
                }
            }
            if ending == 1 {
                results.push(w.finalize());
            }
            if ending == 100 {
                // the caller's own code panics while the writer is alive: the writer is dropped by the unwinding
                let mut rendered = vec![results.len() as W];
                for r in &results {
                    render_unit_res(r, &mut rendered);
                }
                std::panic::resume_unwind(Box::new(rendered));
            }
            drop(w);
        }
        Some(results)
    }));
    let mut out = vec![];
    match r {
        Err(payload) => match payload.downcast::<Vec<W>>() {
            Ok(rendered) if ending == 100 => {
                out.extend(rendered.iter());
                render_dev(&shp, &mut out);
                render_dev(&shx, &mut out);
            }
            _ => out.push(-4),
        },
        Ok(None) => return Err(BadCase),
        Ok(Some(results)) => {
            out.push(results.len() as W);
            for r in &results {
                render_unit_res(r, &mut out);
            }
            render_dev(&shp, &mut out);
            render_dev(&shx, &mut out);
        }
    }
    Ok(out)
}

enum ROp {
    Iter(W),
    Nth(W),
    Seek(W),
    Count,
    Hint,
    /// `iter_shapes_as::<S>().skip(k).take(j)`, collected
    SkipTake(W, W),
    /// `read_as::<S>()` (`read()` for the generic reader): consumes the reader, so it ends the history
    ReadAll,
    /// `read_nth_shape_as::<T>(i)` for the concrete type T of the given code (or the generic `read_nth_shape` for -1),
    /// whatever type the other calls of the history request
    Probe(W, W),
}

macro_rules! probe_as {
    ($reader:expr, $i:expr, $out:expr, $T:ty) => {
        match $reader.read_nth_shape_as::<$T>($i) {
            None => $out.push(0),
            Some(r) => {
                $out.push(1);
                render_item(r, $out)
            }
        }
    };
}

fn render_item<S: Into<Shape>>(r: Result<S, Error>, out: &mut Vec<W>) {
    match r {
        Ok(s) => {
            out.push(0);
            render_shape(&s.into(), out)
        }
        Err(e) => {
            out.push(1);
            render_error(&e, out)
        }
    }
}

fn run_rops<T: std::io::Read + std::io::Seek, S: ReadableShape + Into<Shape>>(
    mut reader: ShapeReader<T>,
    ops: &[ROp],
    cap: usize,
    out: &mut Vec<W>,
) {
    for op in ops {
        match op {
            ROp::SkipTake(k, j) => {
                let items: Vec<_> = reader
                    .iter_shapes_as::<S>()
                    .skip(*k as usize)
                    .take(*j as usize)
                    .collect();
                out.push(items.len() as W);
                for r in items {
                    render_item(r, out);
                }
            }
            ROp::ReadAll => {
                match reader.read_as::<S>() {
                    Ok(v) => {
                        out.extend([0, v.len() as W]);
                        for s in v {
                            render_shape(&s.into(), out);
                        }
                    }
                    Err(e) => {
                        out.push(1);
                        render_error(&e, out);
                    }
                }
                return;
            }
            ROp::Iter(j) => {
                let limit = if *j < 0 { cap } else { cap.min(*j as usize) };
                let mut items = vec![];
                let mut ended = false;
                {
                    let mut it = reader.iter_shapes_as::<S>();
                    while items.len() < limit {
                        match it.next() {
                            None => {
                                ended = true;
                                break;
                            }
                            Some(r) => items.push(r),
                        }
                    }
                }
                out.push(items.len() as W);
                for r in items {
                    render_item(r, out);
                }
                out.push(ended as W);
            }
            ROp::Nth(i) => match reader.read_nth_shape_as::<S>(*i as usize) {
                None => out.push(0),
                Some(r) => {
                    out.push(1);
                    render_item(r, out)
                }
            },
            ROp::Seek(k) => render_unit_res(&reader.seek(*k as usize), out),
            ROp::Count => match reader.shape_count() {
                Ok(n) => out.extend([0, n as W]),
                Err(e) => {
                    out.push(1);
                    render_error(&e, out)
                }
            },
            ROp::Probe(t, i) => {
                let i = *i as usize;
                match *t {
                    -1 => probe_as!(reader, i, out, Shape),
                    1 => probe_as!(reader, i, out, Point),
                    21 => probe_as!(reader, i, out, PointM),
                    11 => probe_as!(reader, i, out, PointZ),
                    3 => probe_as!(reader, i, out, Polyline),
                    23 => probe_as!(reader, i, out, PolylineM),
                    13 => probe_as!(reader, i, out, PolylineZ),
                    5 => probe_as!(reader, i, out, Polygon),
                    25 => probe_as!(reader, i, out, PolygonM),
                    15 => probe_as!(reader, i, out, PolygonZ),
                    8 => probe_as!(reader, i, out, Multipoint),
                    28 => probe_as!(reader, i, out, MultipointM),
                    18 => probe_as!(reader, i, out, MultipointZ),
                    31 => probe_as!(reader, i, out, Multipatch),
                    _ => out.push(-1),
                }
            }
            ROp::Hint => {
                let it = reader.iter_shapes_as::<S>();
                match it.size_hint() {
                    (lo, Some(hi)) if lo == hi => out.extend([1, lo as W]),
                    (0, None) => out.push(0),
                    (lo, hi) => out.extend([2, lo as W, hi.map(|h| h as W).unwrap_or(-1)]),
                }
            }
        }
    }
}

fn case_read(c: &mut Cur) -> Result<Vec<W>, BadCase> {
    let req = c.next()?;
    let has_shx = c.next()? == 1;
    let fk = c.next()?;
    let fpers = c.next()? == 1;
    let nsched = c.n()?;
    let mut sched = vec![];
    for _ in 0..nsched {
        sched.push(c.n()?);
    }
    let shp = read_bytes(c)?;
    let shx = if has_shx { read_bytes(c)? } else { vec![] };
    let nops = c.n()?;
    let mut ops = vec![];
    for _ in 0..nops {
        ops.push(match c.next()? {
            0 => ROp::Iter(c.next()?),
            1 => ROp::Nth(c.next()?),
            2 => ROp::Seek(c.next()?),
            3 => ROp::Count,
            4 => ROp::Hint,
            5 => ROp::SkipTake(c.n()? as W, c.n()? as W),
            6 => ROp::ReadAll,
            7 => {
                let t = c.next()?;
                if ![-1, 1, 21, 11, 3, 23, 13, 5, 25, 15, 8, 28, 18, 31].contains(&t) {
                    return Err(BadCase);
                }
                ROp::Probe(t, c.n()? as W)
            }
            _ => return Err(BadCase),
        });
    }
    if !c.at_end() {
        return Err(BadCase);
    }
    // read_as consumes the reader: only as the last call
    if ops.iter().rev().skip(1).any(|o| matches!(o, ROp::ReadAll)) {
        return Err(BadCase);
    }
    let cap = shp.len() / 12 + shx.len() / 8 + 2;
    let r = std::panic::catch_unwind(std::panic::AssertUnwindSafe(move || {
        let mut out = vec![];
        let mut src = Source::new(shp);
        if fk >= 0 {
            src.fault = Some((fk as usize, fpers));
        }
        // the same short-read schedule on the index source
        let mut isrc = Source::new(shx);
        isrc.sched = sched.clone();
        src.sched = sched;
        let reader = if has_shx {
            ShapeReader::with_shx(src, isrc)
        } else {
            ShapeReader::new(src)
        };
        match reader {
            Err(e) => {
                out.push(1);
                render_error(&e, &mut out);
            }
            Ok(reader) => {
                out.push(0);
                let h = *reader.header();
                out.extend([h.file_length as W, h.shape_type as i32 as W, h.version as W]);
                out.extend([
                    fb(h.bbox.min.x), fb(h.bbox.min.y), fb(h.bbox.max.x), fb(h.bbox.max.y),
                    fb(h.bbox.min.z), fb(h.bbox.max.z), fb(h.bbox.min.m), fb(h.bbox.max.m),
                ]);
                match req {
                    -1 => run_rops::<_, Shape>(reader, &ops, cap, &mut out),
                    1 => run_rops::<_, Point>(reader, &ops, cap, &mut out),
                    21 => run_rops::<_, PointM>(reader, &ops, cap, &mut out),
                    11 => run_rops::<_, PointZ>(reader, &ops, cap, &mut out),
                    3 => run_rops::<_, Polyline>(reader, &ops, cap, &mut out),
                    23 => run_rops::<_, PolylineM>(reader, &ops, cap, &mut out),
                    13 => run_rops::<_, PolylineZ>(reader, &ops, cap, &mut out),
                    5 => run_rops::<_, Polygon>(reader, &ops, cap, &mut out),
                    25 => run_rops::<_, PolygonM>(reader, &ops, cap, &mut out),
                    15 => run_rops::<_, PolygonZ>(reader, &ops, cap, &mut out),
                    8 => run_rops::<_, Multipoint>(reader, &ops, cap, &mut out),
                    28 => run_rops::<_, MultipointM>(reader, &ops, cap, &mut out),
                    18 => run_rops::<_, MultipointZ>(reader, &ops, cap, &mut out),
                    31 => run_rops::<_, Multipatch>(reader, &ops, cap, &mut out),
                    _ => return None,
                }
            }
        }
        Some(out)
    }));
    match r {
        Err(_) => Ok(vec![2]),
        Ok(None) => Err(BadCase),
        Ok(Some(out)) => Ok(out),
    }
}


/// Kind 7: conversions between the generic `Shape` and the concrete types.
/// [requested type code S; n; n ctor specs] ->
/// per shape: Shape::shapetype() code, <T as HasShapeType>::shapetype() code of
/// its concrete type (0 for the null shape), S::try_from(shape) rendered
/// (Ok: Shape::from(value) rendered; Err: the error), then the bulk conversion
/// convert_shapes_to_vec_of::<S>(all shapes).
macro_rules! conv_as {
    ($T:ty, $mk:expr, $out:expr) => {{
        // `Shape` is not Clone: the shapes are rebuilt from the specs for every use
        let n = $mk().len();
        for k in 0..n {
            let s = $mk().swap_remove(k);
            $out.push(s.shapetype() as i32 as W);
            let concrete: W = with_concrete!(&s, x => concrete_type_of(x) as i32 as W, 0);
            $out.push(concrete);
            match <$T>::try_from(s) {
                Ok(v) => {
                    $out.push(0);
                    render_shape(&Shape::from(v), $out);
                }
                Err(e) => {
                    $out.push(1);
                    render_error(&e, $out);
                }
            }
        }
        match convert_shapes_to_vec_of::<$T>($mk()) {
            Ok(v) => {
                $out.push(0);
                $out.push(v.len() as W);
                for x in v {
                    render_shape(&Shape::from(x), $out);
                }
            }
            Err(e) => {
                $out.push(1);
                render_error(&e, $out);
            }
        }
    }};
}

fn concrete_type_of<T: HasShapeType>(_x: &T) -> ShapeType {
    T::shapetype()
}

fn case_conv(c: &mut Cur) -> Result<Vec<W>, BadCase> {
    let req = c.next()?;
    let n = c.n()?;
    let specs_start = c.i;
    for _ in 0..n {
        if build(read_ctor(c)?).is_err() {
            return Ok(vec![-3]);
        }
    }
    if !c.at_end() {
        return Err(BadCase);
    }
    let v = c.v;
    let mk = || -> Vec<Shape> {
        let mut c2 = Cur { v, i: specs_start };
        (0..n).map(|_| build(read_ctor(&mut c2).unwrap()).unwrap()).collect()
    };
    let mut out = vec![];
    let o = &mut out;
    match req {
        1 => conv_as!(Point, mk, o),
        21 => conv_as!(PointM, mk, o),
        11 => conv_as!(PointZ, mk, o),
        3 => conv_as!(Polyline, mk, o),
        23 => conv_as!(PolylineM, mk, o),
        13 => conv_as!(PolylineZ, mk, o),
        5 => conv_as!(Polygon, mk, o),
        25 => conv_as!(PolygonM, mk, o),
        15 => conv_as!(PolygonZ, mk, o),
        8 => conv_as!(Multipoint, mk, o),
        28 => conv_as!(MultipointM, mk, o),
        18 => conv_as!(MultipointZ, mk, o),
        31 => conv_as!(Multipatch, mk, o),
        _ => return Err(BadCase),
    }
    Ok(out)
}

/// Counting allocator (C17): live bytes, peak of live bytes and the largest
/// single request since the last reset.
struct Counting;
static LIVE: std::sync::atomic::AtomicUsize = std::sync::atomic::AtomicUsize::new(0);
static PEAK: std::sync::atomic::AtomicUsize = std::sync::atomic::AtomicUsize::new(0);
static LARGEST: std::sync::atomic::AtomicUsize = std::sync::atomic::AtomicUsize::new(0);

fn note_alloc(size: usize) {
    use std::sync::atomic::Ordering::Relaxed;
    let live = LIVE.fetch_add(size, Relaxed) + size;
    PEAK.fetch_max(live, Relaxed);
    LARGEST.fetch_max(size, Relaxed);
}

unsafe impl std::alloc::GlobalAlloc for Counting {
    unsafe fn alloc(&self, l: std::alloc::Layout) -> *mut u8 {
        note_alloc(l.size());
        std::alloc::System.alloc(l)
    }
    unsafe fn dealloc(&self, p: *mut u8, l: std::alloc::Layout) {
        LIVE.fetch_sub(l.size(), std::sync::atomic::Ordering::Relaxed);
        std::alloc::System.dealloc(p, l)
    }
    unsafe fn realloc(&self, p: *mut u8, l: std::alloc::Layout, new_size: usize) -> *mut u8 {
        LIVE.fetch_sub(l.size(), std::sync::atomic::Ordering::Relaxed);
        note_alloc(new_size);
        std::alloc::System.realloc(p, l, new_size)
    }
}

#[global_allocator]
static ALLOCATOR: Counting = Counting;

/// Kind 8: memory requested while reading.
/// [has_shx; shp bytes; shx bytes (if has_shx)] -> open (with the index if given),
/// iterate to the end keeping every item, read_nth(0), read_nth(1), then drop;
/// result: [peak live bytes above the baseline, largest single request, 0 ok | 1 open error | 2 panic].
fn case_alloc(c: &mut Cur) -> Result<Vec<W>, BadCase> {
    use std::sync::atomic::Ordering::Relaxed;
    let mode = c.next()?;
    let has_shx = mode == 1 || mode == 3;
    let shp = read_bytes(c)?;
    let shx = if has_shx { read_bytes(c)? } else { vec![] };
    if !c.at_end() {
        return Err(BadCase);
    }
    if mode >= 2 {
        // modes 2 / 3: the same files on disk, opened by path (`ShapeReader::from_path`, which owns the buffered readers)
        let base_dir = std::env::var("SFV_TMP").map(std::path::PathBuf::from).unwrap_or_else(|_| std::env::temp_dir());
        let dir = base_dir.join(format!("a8_{}_{}", std::process::id(), PATH_CASES.fetch_add(1, Relaxed)));
        let _ = std::fs::remove_dir_all(&dir);
        std::fs::create_dir_all(&dir).map_err(|_| BadCase)?;
        let p = dir.join("f.shp");
        std::fs::write(&p, &shp).map_err(|_| BadCase)?;
        if has_shx {
            std::fs::write(dir.join("f.shx"), &shx).map_err(|_| BadCase)?;
        }
        let cap = shp.len() / 12 + shx.len() / 8 + 2;
        drop((shp, shx));
        let base = LIVE.load(Relaxed);
        PEAK.store(base, Relaxed);
        LARGEST.store(0, Relaxed);
        let p2 = p.clone();
        let r = std::panic::catch_unwind(std::panic::AssertUnwindSafe(move || -> W {
            match ShapeReader::from_path(&p2) {
                Err(_) => 1,
                Ok(mut reader) => {
                    let mut kept = vec![];
                    {
                        let mut it = reader.iter_shapes();
                        while kept.len() < cap {
                            match it.next() {
                                None => break,
                                Some(x) => kept.push(x),
                            }
                        }
                    }
                    let a = reader.read_nth_shape(0);
                    drop((a, kept));
                    drop(shapefile::read_shapes(&p2));
                    0
                }
            }
        }));
        let peak = PEAK.load(Relaxed).saturating_sub(base);
        let largest = LARGEST.load(Relaxed);
        let _ = std::fs::remove_dir_all(&dir);
        return Ok(vec![peak as W, largest as W, r.unwrap_or(2)]);
    }
    let cap = shp.len() / 12 + shx.len() / 8 + 2;
    let src2 = Source::new(shp.clone());
    let idx2 = Source::new(shx.clone());
    let src = Source::new(shp);
    let idx = Source::new(shx);
    let base = LIVE.load(Relaxed);
    PEAK.store(base, Relaxed);
    LARGEST.store(0, Relaxed);
    let r = std::panic::catch_unwind(std::panic::AssertUnwindSafe(move || -> W {
        let reader = if has_shx { ShapeReader::with_shx(src, idx) } else { ShapeReader::new(src) };
        match reader {
            Err(_) => 1,
            Ok(mut reader) => {
                let mut kept = vec![];
                {
                    let mut it = reader.iter_shapes();
                    while kept.len() < cap {
                        match it.next() {
                            None => break,
                            Some(x) => kept.push(x),
                        }
                    }
                }
                let a = reader.read_nth_shape(0);
                let b = reader.read_nth_shape(1);
                drop((a, b, kept));
                // the bulk read of a second reader over the same bytes (`read()` sizes its result itself)
                let reader2 = if has_shx { ShapeReader::with_shx(src2, idx2) } else { ShapeReader::new(src2) };
                if let Ok(r2) = reader2 {
                    drop(r2.read());
                }
                0
            }
        }
    }));
    let peak = PEAK.load(Relaxed).saturating_sub(base);
    let largest = LARGEST.load(Relaxed);
    Ok(vec![peak as W, largest as W, r.unwrap_or(2)])
}

/// Kind 9: the complete writer and reader (shapes + attribute rows through the real dbase crate).
/// [ncalls; (row kind, ctor spec)*; nops; reader ops]   row kind: 0 = a row {idx: i} the table accepts,
/// 1 = a row missing the field, 2 = a row whose idx has the wrong value type.
/// reader op: 0 j (iterate pairs, at most j, -1 = all) | 2 k (seek) | 3 (count).
/// -> per call result; entry counts (shp records, shx entries, dbf rows); per reader op its rendering.
/// The calls of a history on the complete reader, rendered (shared by the in-memory and the path cases).
fn run_pair_ops<T: std::io::Read + std::io::Seek, D: std::io::Read + std::io::Seek>(reader: &mut Reader<T, D>, ops: &[ROp], o: &mut Vec<W>) {
    run_pair_ops_as::<T, D, Shape>(reader, ops, o, false)
}

/// The same with the typed entry points of the complete reader (`iter_shapes_and_records_as::<S, _>`,
/// `read_as::<S, _>`) when `typed`; the untyped ones (`iter_shapes_and_records`, `read`) otherwise.
fn run_pair_ops_as<T: std::io::Read + std::io::Seek, D: std::io::Read + std::io::Seek, S: ReadableShape + Into<Shape>>(
    reader: &mut Reader<T, D>,
    ops: &[ROp],
    o: &mut Vec<W>,
    typed: bool,
) {
    for op in ops {
            match op {
            ROp::Iter(j) => {
                let limit = if *j < 0 { usize::MAX } else { *j as usize };
                let mut items = vec![];
                let mut ended = false;
                {
                    let mut it: Box<dyn Iterator<Item = Result<(Shape, dbase::Record), Error>> + '_> = if typed {
                        Box::new(reader.iter_shapes_and_records_as::<S, dbase::Record>().map(|r| r.map(|(s, rec)| (s.into(), rec))))
                    } else {
                        Box::new(reader.iter_shapes_and_records())
                    };
                    while items.len() < limit {
                        match it.next() {
                            None => { ended = true; break; }
                            Some(x) => items.push(x),
                        }
                    }
                }
                o.push(items.len() as W);
                for it in items {
                    match it {
                        Ok((s, rec)) => {
                            o.push(0);
                            render_shape(&s, o);
                            match rec.get("idx") {
                                Some(dbase::FieldValue::Numeric(Some(v))) => o.push(*v as W),
                                _ => o.push(-1),
                            }
                        }
                        Err(e) => { o.push(1); render_error(&e, o); }
                    }
                }
                o.push(ended as W);
            }
            ROp::Seek(k) => render_unit_res(&reader.seek(*k as usize), o),
            ROp::Count => match reader.shape_count() {
                Ok(n) => o.extend([0, n as W]),
                Err(e) => { o.push(1); render_error(&e, o); }
            },
            ROp::ReadAll => match (if typed {
                reader.read_as::<S, dbase::Record>().map(|v| v.into_iter().map(|(s, rec)| (s.into(), rec)).collect::<Vec<(Shape, dbase::Record)>>())
            } else {
                reader.read()
            }) {
                Ok(v) => {
                    o.extend([0, v.len() as W]);
                    for (s, rec) in v {
                        render_shape(&s, o);
                        match rec.get("idx") {
                            Some(dbase::FieldValue::Numeric(Some(x))) => o.push(*x as W),
                            _ => o.push(-1),
                        }
                    }
                }
                Err(e) => { o.push(1); render_error(&e, o); }
            },
            _ => {}
        }
    }
}

fn case_pair(c: &mut Cur) -> Result<Vec<W>, BadCase> {
    use std::convert::TryInto;
    use std::io::Cursor;
    let ncalls = c.n()?;
    let mut calls = vec![];
    for _ in 0..ncalls {
        let kind = c.next()?;
        match build(read_ctor(c)?) {
            Ok(Shape::NullShape) if kind != 4 => return Err(BadCase),
            Ok(s) => calls.push((kind, s)),
            Err(()) => return Ok(vec![-3]),
        }
    }
    if calls.iter().skip_while(|(k, _)| *k == 3 || *k == 4).any(|(k, _)| *k == 3 || *k == 4) {
        return Err(BadCase);
    }
    if calls.iter().skip_while(|(k, _)| *k != 5).any(|(k, _)| *k != 5) {
        return Err(BadCase);
    }
    let nops = c.n()?;
    let mut ops = vec![];
    for _ in 0..nops {
        ops.push(match c.next()? {
            0 => ROp::Iter(c.next()?),
            2 => ROp::Seek(c.next()?),
            3 => ROp::Count,
            6 => ROp::ReadAll,
            _ => return Err(BadCase),
        });
    }
    if !c.at_end() {
        return Err(BadCase);
    }
    let mut shp = Cursor::new(Vec::<u8>::new());
    let mut shx = Cursor::new(Vec::<u8>::new());
    let mut dbf = Cursor::new(Vec::<u8>::new());
    // kind 5 (a suffix): the pairs handed together to the bulk helper `write_shapes_and_records` at the end
    let nbulk = calls.iter().rev().take_while(|(k, _)| *k == 5).count();
    let mut bulk_vec: Vec<(W, Shape)> = calls.split_off(calls.len() - nbulk);
    let r = std::panic::catch_unwind(std::panic::AssertUnwindSafe(|| {
        let mut out: Vec<W> = vec![];
        {
            let mut sw = ShapeWriter::with_shx(&mut shp, &mut shx);
            out.push((calls.len() + (nbulk > 0) as usize) as W);
            // kind 3 (a prefix): written through the bare ShapeWriter before it is wrapped into the complete writer
            // kind 4 (in the prefix, with the null constructor): `finalize` of the bare ShapeWriter
            let npre = calls.iter().take_while(|(k, _)| *k == 3 || *k == 4).count();
            for (k, s) in calls.iter().take(npre) {
                let r = if *k == 4 { sw.finalize() } else { with_concrete!(s, x => sw.write_shape(x), unreachable!()) };
                render_unit_res(&r, &mut out);
            }
            let tw = dbase::TableWriterBuilder::new()
                .add_numeric_field("idx".try_into().unwrap(), 10, 0)
                .build_with_dest(&mut dbf);
            let mut w = Writer::new(sw, tw);
            for (i, (kind, s)) in calls.iter().enumerate().skip(npre) {
                let mut rec = dbase::Record::default();
                match kind {
                    0 => { rec.insert("idx".to_string(), dbase::FieldValue::Numeric(Some(i as f64))); }
                    1 => {}
                    _ => { rec.insert("idx".to_string(), dbase::FieldValue::Character(Some("x".to_string()))); }
                }
                let r = with_concrete!(s, x => w.write_shape_and_record(x, &rec), unreachable!());
                render_unit_res(&r, &mut out);
            }
            if nbulk > 0 {
                let first = calls.len();
                let recs: Vec<dbase::Record> = (first..first + nbulk)
                    .map(|i| {
                        let mut rec = dbase::Record::default();
                        rec.insert("idx".to_string(), dbase::FieldValue::Numeric(Some(i as f64)));
                        rec
                    })
                    .collect();
                let bulk_shapes: Vec<Shape> = std::mem::take(&mut bulk_vec).into_iter().map(|(_, s)| s).collect();
                let first_type = bulk_shapes[0].shapetype();
                macro_rules! bulk_as {
                    ($T:ty) => {{
                        let v: Result<Vec<$T>, _> = bulk_shapes.into_iter().map(<$T>::try_from).collect();
                        match v {
                            Ok(v) => w.write_shapes_and_records(v.iter().zip(recs.iter())),
                            Err(_) => return vec![-1],
                        }
                    }};
                }
                let r = match first_type {
                    ShapeType::Point => bulk_as!(Point),
                    ShapeType::PointM => bulk_as!(PointM),
                    ShapeType::PointZ => bulk_as!(PointZ),
                    ShapeType::Polyline => bulk_as!(Polyline),
                    ShapeType::PolylineM => bulk_as!(PolylineM),
                    ShapeType::PolylineZ => bulk_as!(PolylineZ),
                    ShapeType::Polygon => bulk_as!(Polygon),
                    ShapeType::PolygonM => bulk_as!(PolygonM),
                    ShapeType::PolygonZ => bulk_as!(PolygonZ),
                    ShapeType::Multipoint => bulk_as!(Multipoint),
                    ShapeType::MultipointM => bulk_as!(MultipointM),
                    ShapeType::MultipointZ => bulk_as!(MultipointZ),
                    ShapeType::Multipatch => bulk_as!(Multipatch),
                    ShapeType::NullShape => return vec![-1],
                };
                render_unit_res(&r, &mut out);
            }
        }
        out
    }));
    let mut out = match r {
        Ok(o) => o,
        Err(_) => return Ok(vec![-4]),
    };
    let (shp, shx, dbf) = (shp.into_inner(), shx.into_inner(), dbf.into_inner());
    // entry counts read off the bytes
    let mut nrec = 0;
    let mut pos = 100usize;
    while pos + 8 <= shp.len() {
        let words = i32::from_be_bytes([shp[pos + 4], shp[pos + 5], shp[pos + 6], shp[pos + 7]]);
        nrec += 1;
        pos += 8 + 2 * (words.max(0) as usize);
    }
    let nidx = if shx.len() >= 100 { (shx.len() - 100) / 8 } else { 0 };
    let nrows = if dbf.len() >= 8 { u32::from_le_bytes([dbf[4], dbf[5], dbf[6], dbf[7]]) as usize } else { 0 };
    out.extend([nrec as W, nidx as W, nrows as W]);
    let rr = std::panic::catch_unwind(std::panic::AssertUnwindSafe(move || -> Vec<W> {
        let mut o: Vec<W> = vec![];
        let sr = match ShapeReader::with_shx(Cursor::new(shp), Cursor::new(shx)) {
            Ok(r) => r,
            Err(e) => { o.push(1); render_error(&e, &mut o); return o; }
        };
        let dr = match dbase::Reader::new(Cursor::new(dbf)) {
            Ok(r) => r,
            Err(_) => { o.extend([1, 11]); return o; }
        };
        o.push(0);
        let mut reader = Reader::new(sr, dr);
        run_pair_ops(&mut reader, &ops, &mut o);
        o
    }));
    match rr {
        Ok(o) => out.extend(o),
        Err(_) => out.push(2),
    }
    Ok(out)
}

/// Kind 15: memory requested by the bulk read of the complete reader.  [n; announced rows; with index 0|1]:
/// n point pairs are written in memory with the real Writer and dbase, the row count in the .dbf header is
/// replaced by `announced`, then `Reader::read()` runs under the counting allocator.
/// -> [peak bytes, largest single request, status (0 ok / 1 error / 2 panic), input bytes]
fn case_pair_alloc(c: &mut Cur) -> Result<Vec<W>, BadCase> {
    use std::convert::TryInto;
    use std::io::Cursor;
    use std::sync::atomic::Ordering::Relaxed;
    let n = c.n()?;
    let announced = c.next()?;
    let with_index = c.next()? == 1;
    if !c.at_end() {
        return Err(BadCase);
    }
    let mut shp = Cursor::new(Vec::<u8>::new());
    let mut shx = Cursor::new(Vec::<u8>::new());
    let mut dbf = Cursor::new(Vec::<u8>::new());
    {
        let sw = ShapeWriter::with_shx(&mut shp, &mut shx);
        let tw = dbase::TableWriterBuilder::new()
            .add_numeric_field("idx".try_into().unwrap(), 10, 0)
            .build_with_dest(&mut dbf);
        let mut w = Writer::new(sw, tw);
        for i in 0..n {
            let mut rec = dbase::Record::default();
            rec.insert("idx".to_string(), dbase::FieldValue::Numeric(Some(i as f64)));
            w.write_shape_and_record(&Point::new(i as f64, 1.0), &rec).map_err(|_| BadCase)?;
        }
    }
    let (shp, shx, mut dbf) = (shp.into_inner(), shx.into_inner(), dbf.into_inner());
    if dbf.len() >= 8 {
        dbf[4..8].copy_from_slice(&(announced as u32).to_le_bytes());
    }
    let input = shp.len() + dbf.len() + if with_index { shx.len() } else { 0 };
    let base = LIVE.load(Relaxed);
    PEAK.store(base, Relaxed);
    LARGEST.store(0, Relaxed);
    let r = std::panic::catch_unwind(std::panic::AssertUnwindSafe(move || -> W {
        let sr = if with_index {
            ShapeReader::with_shx(Cursor::new(shp), Cursor::new(shx))
        } else {
            ShapeReader::new(Cursor::new(shp))
        };
        let (sr, dr) = match (sr, dbase::Reader::new(Cursor::new(dbf))) {
            (Ok(a), Ok(b)) => (a, b),
            _ => return 1,
        };
        let mut reader = Reader::new(sr, dr);
        match reader.read() {
            Ok(v) => {
                drop(v);
                0
            }
            Err(_) => 1,
        }
    }));
    let peak = PEAK.load(Relaxed).saturating_sub(base);
    Ok(vec![peak as W, LARGEST.load(Relaxed) as W, r.unwrap_or(2), input as W])
}

/// Kind 14: a file copy. [shp bytes] -> the shapes are read with `ShapeReader::new(..).read()` (generic) and,
/// the null shapes left out, written again with a `ShapeWriter` (with index) that is then dropped:
/// [0, n results, results.., .shp destination, .shx destination] | [1, error of the read].
fn case_copy(c: &mut Cur) -> Result<Vec<W>, BadCase> {
    let shp_in = read_bytes(c)?;
    if !c.at_end() {
        return Err(BadCase);
    }
    let shp = Dest::default();
    let shx = Dest::default();
    let (shp2, shx2) = (shp.clone(), shx.clone());
    let r = std::panic::catch_unwind(std::panic::AssertUnwindSafe(move || -> Result<Vec<Result<(), Error>>, Error> {
        let shapes = ShapeReader::new(Source::new(shp_in))?.read()?;
        let mut w = ShapeWriter::with_shx(shp2, shx2);
        let mut results = vec![];
        for s in &shapes {
            if let Shape::NullShape = s {
                continue;
            }
            results.push(with_concrete!(s, x => w.write_shape(x), unreachable!()));
        }
        drop(w);
        Ok(results)
    }));
    let mut out = vec![];
    match r {
        Err(_) => out.push(2),
        Ok(Err(e)) => {
            out.push(1);
            render_error(&e, &mut out);
        }
        Ok(Ok(results)) => {
            out.extend([0, results.len() as W]);
            for r in &results {
                render_unit_res(r, &mut out);
            }
            render_dev(&shp, &mut out);
            render_dev(&shx, &mut out);
        }
    }
    Ok(out)
}


/// Kind 16: the path-based API on a scratch directory.
/// [complete 0|1; nstale; (name; size)*; name; history; rmname; nq; (name; want bytes 0|1)*; nops; ops]
/// * stale files (magic + zeros, `size` bytes) are put into a fresh directory first;
/// * complete = 0: history = ending (0 drop | 1 finalize, drop); ncalls; calls as in kind 4 (0 finalize | 1 ctor),
///   run on `ShapeWriter::from_path(dir/name)`; ops as in kind 5, run on `ShapeReader::from_path(dir/name)` (generic);
/// * complete = 1: history = ncalls; (row kind; ctor)* as in kind 9 on `Writer::from_path`; ops as in kind 9 on
///   `Reader::from_path`;
/// * after the writer is gone `rmname` (if not empty) is removed;
/// -> ncalls; call results; removed 0|1; number of files in the directory; per query -1 (absent) | -2 (not one
///    of the library's own files) | size [bytes]; then the reader part as in kind 5 / kind 9 (open error: 1 code).
const K_PATH: W = 16;
static PATH_CASES: std::sync::atomic::AtomicU64 = std::sync::atomic::AtomicU64::new(0);

fn case_path(c: &mut Cur) -> Result<Vec<W>, BadCase> {
    use std::convert::TryInto;
    use std::os::unix::ffi::OsStrExt;
    let complete = c.next()? == 1;
    let mut stale = vec![];
    for _ in 0..c.n()? {
        let n = read_bytes(c)?;
        stale.push((n, c.n()?));
    }
    let name = read_bytes(c)?;
    let ending = if complete { 0 } else { c.next()? };
    let ncalls = c.n()?;
    let mut calls = vec![];
    for _ in 0..ncalls {
        let k = c.next()?;
        if !complete && k == 0 {
            calls.push((k, None));
            continue;
        }
        if !complete && k != 1 {
            return Err(BadCase);
        }
        match build(read_ctor(c)?) {
            Ok(Shape::NullShape) => return Err(BadCase),
            Ok(s) => calls.push((k, Some(s))),
            Err(()) => return Ok(vec![-3]),
        }
    }
    let rmname = read_bytes(c)?;
    let mut queries = vec![];
    for _ in 0..c.n()? {
        let n = read_bytes(c)?;
        queries.push((n, c.next()? == 1));
    }
    let nops = c.n()?;
    let mut ops = vec![];
    for _ in 0..nops {
        ops.push(match c.next()? {
            0 => ROp::Iter(c.next()?),
            1 if !complete => ROp::Nth(c.next()?),
            2 => ROp::Seek(c.next()?),
            3 => ROp::Count,
            4 if !complete => ROp::Hint,
            5 if !complete => ROp::SkipTake(c.next()?, c.next()?),
            6 => ROp::ReadAll,
            _ => return Err(BadCase),
        });
    }
    if !c.at_end() {
        return Err(BadCase);
    }
    let base = std::env::var("SFV_TMP").map(std::path::PathBuf::from).unwrap_or_else(|_| std::env::temp_dir());
    let dir = base.join(format!(
        "p16_{}_{}",
        std::process::id(),
        PATH_CASES.fetch_add(1, std::sync::atomic::Ordering::Relaxed)
    ));
    let _ = std::fs::remove_dir_all(&dir);
    std::fs::create_dir_all(&dir).map_err(|_| BadCase)?;
    let at = |n: &[u8]| dir.join(std::ffi::OsStr::from_bytes(n));
    for (n, size) in &stale {
        let mut content = vec![0u8, 0, 0x27, 0x0a];
        content.resize((*size).max(4), 0);
        std::fs::write(at(n), content).map_err(|_| BadCase)?;
    }
    let path = at(&name);
    let mut out: Vec<W> = vec![];
    let wr = std::panic::catch_unwind(std::panic::AssertUnwindSafe(|| -> Result<Vec<W>, Error> {
        let mut o = vec![];
        if complete {
            let tb = dbase::TableWriterBuilder::new().add_numeric_field("idx".try_into().unwrap(), 10, 0);
            let mut w = Writer::from_path(&path, tb)?;
            o.push(calls.len() as W);
            for (i, (kind, s)) in calls.iter().enumerate() {
                let mut rec = dbase::Record::default();
                match kind {
                    0 => { rec.insert("idx".to_string(), dbase::FieldValue::Numeric(Some(i as f64))); }
                    1 => {}
                    _ => { rec.insert("idx".to_string(), dbase::FieldValue::Character(Some("x".to_string()))); }
                }
                let s = s.as_ref().unwrap();
                let r = with_concrete!(s, x => w.write_shape_and_record(x, &rec), unreachable!());
                render_unit_res(&r, &mut o);
            }
        } else {
            let mut w = ShapeWriter::from_path(&path)?;
            let mut results = vec![];
            for (_, s) in &calls {
                match s {
                    None => results.push(w.finalize()),
                    Some(s) => results.push(with_concrete!(s, x => w.write_shape(x), unreachable!())),
                }
            }
            if ending == 1 {
                results.push(w.finalize());
            }
            drop(w);
            o.push(results.len() as W);
            for r in &results {
                render_unit_res(r, &mut o);
            }
        }
        Ok(o)
    }));
    match wr {
        Err(_) => {
            let _ = std::fs::remove_dir_all(&dir);
            return Ok(vec![-4]);
        }
        Ok(Err(e)) => {
            out.push(-6);
            render_error(&e, &mut out);
            let _ = std::fs::remove_dir_all(&dir);
            return Ok(out);
        }
        Ok(Ok(o)) => out.extend(o),
    }
    if rmname.is_empty() {
        out.push(0);
    } else {
        out.push(std::fs::remove_file(at(&rmname)).is_ok() as W);
    }
    out.push(std::fs::read_dir(&dir).map(|d| d.count() as W).unwrap_or(-1));
    for (q, want) in &queries {
        match std::fs::read(at(q)) {
            Err(_) => out.push(-1),
            Ok(b) if b.len() >= 4 && b[..4] == [0, 0, 0x27, 0x0a] => {
                out.push(b.len() as W);
                if *want {
                    out.extend(b.iter().map(|x| *x as W));
                }
            }
            Ok(_) => out.push(-2),
        }
    }
    let rr = std::panic::catch_unwind(std::panic::AssertUnwindSafe(|| -> Vec<W> {
        let mut o: Vec<W> = vec![];
        if complete {
            match Reader::from_path(&path) {
                Err(e) => { o.push(1); render_error(&e, &mut o); }
                Ok(mut reader) => { o.push(0); run_pair_ops(&mut reader, &ops, &mut o); }
            }
        } else {
            match ShapeReader::from_path(&path) {
                Err(e) => { o.push(1); render_error(&e, &mut o); }
                Ok(reader) => {
                    o.push(0);
                    let h = *reader.header();
                    o.extend([h.file_length as W, h.shape_type as i32 as W, h.version as W]);
                    o.extend([
                        fb(h.bbox.min.x), fb(h.bbox.min.y), fb(h.bbox.max.x), fb(h.bbox.max.y),
                        fb(h.bbox.min.z), fb(h.bbox.max.z), fb(h.bbox.min.m), fb(h.bbox.max.m),
                    ]);
                    let cap = std::fs::metadata(&path).map(|m| m.len() as usize / 12).unwrap_or(0)
                        + std::fs::metadata(path.with_extension("shx")).map(|m| m.len() as usize / 8).unwrap_or(0) + 2;
                    run_rops::<_, Shape>(reader, &ops, cap, &mut o);
                }
            }
        }
        o
    }));
    match rr {
        Ok(o) => out.extend(o),
        Err(_) => out.push(2),
    }
    let _ = std::fs::remove_dir_all(&dir);
    Ok(out)
}

/// Kind 17: the complete reader on given files.  [req (-1 generic | type code: the typed entry points); shp bytes; has_shx 0|1; shx bytes (if has_shx); nrows; nops; ops as in
/// kind 9]: a table of nrows rows (idx = 0..nrows-1) is written in memory with dbase, then
/// `Reader::new(ShapeReader::with_shx | new, dbase::Reader)` runs the ops.  -> as the reader part of kind 9.
const K_PAIR_FILE: W = 17;

fn case_pair_file(c: &mut Cur) -> Result<Vec<W>, BadCase> {
    use std::convert::TryInto;
    use std::io::Cursor;
    let req = c.next()?;
    let shp = read_bytes(c)?;
    let has_shx = c.next()? == 1;
    let shx = if has_shx { read_bytes(c)? } else { vec![] };
    let nrows = c.n()?;
    let nops = c.n()?;
    let mut ops = vec![];
    for _ in 0..nops {
        ops.push(match c.next()? {
            0 => ROp::Iter(c.next()?),
            2 => ROp::Seek(c.next()?),
            3 => ROp::Count,
            6 => ROp::ReadAll,
            _ => return Err(BadCase),
        });
    }
    if !c.at_end() {
        return Err(BadCase);
    }
    let mut dbf = Cursor::new(Vec::<u8>::new());
    {
        let mut tw = dbase::TableWriterBuilder::new()
            .add_numeric_field("idx".try_into().unwrap(), 10, 0)
            .build_with_dest(&mut dbf);
        for i in 0..nrows {
            let mut rec = dbase::Record::default();
            rec.insert("idx".to_string(), dbase::FieldValue::Numeric(Some(i as f64)));
            tw.write_record(&rec).map_err(|_| BadCase)?;
        }
    }
    let dbf = dbf.into_inner();
    let rr = std::panic::catch_unwind(std::panic::AssertUnwindSafe(move || -> Vec<W> {
        let mut o: Vec<W> = vec![];
        let sr = if has_shx {
            ShapeReader::with_shx(Cursor::new(shp), Cursor::new(shx))
        } else {
            ShapeReader::new(Cursor::new(shp))
        };
        let sr = match sr {
            Ok(r) => r,
            Err(e) => { o.push(1); render_error(&e, &mut o); return o; }
        };
        let dr = match dbase::Reader::new(Cursor::new(dbf)) {
            Ok(r) => r,
            Err(_) => { o.extend([1, 11]); return o; }
        };
        o.push(0);
        let mut reader = Reader::new(sr, dr);
        match req {
            -1 => run_pair_ops(&mut reader, &ops, &mut o),
            1 => run_pair_ops_as::<_, _, Point>(&mut reader, &ops, &mut o, true),
            21 => run_pair_ops_as::<_, _, PointM>(&mut reader, &ops, &mut o, true),
            11 => run_pair_ops_as::<_, _, PointZ>(&mut reader, &ops, &mut o, true),
            3 => run_pair_ops_as::<_, _, Polyline>(&mut reader, &ops, &mut o, true),
            23 => run_pair_ops_as::<_, _, PolylineM>(&mut reader, &ops, &mut o, true),
            13 => run_pair_ops_as::<_, _, PolylineZ>(&mut reader, &ops, &mut o, true),
            5 => run_pair_ops_as::<_, _, Polygon>(&mut reader, &ops, &mut o, true),
            25 => run_pair_ops_as::<_, _, PolygonM>(&mut reader, &ops, &mut o, true),
            15 => run_pair_ops_as::<_, _, PolygonZ>(&mut reader, &ops, &mut o, true),
            8 => run_pair_ops_as::<_, _, Multipoint>(&mut reader, &ops, &mut o, true),
            28 => run_pair_ops_as::<_, _, MultipointM>(&mut reader, &ops, &mut o, true),
            18 => run_pair_ops_as::<_, _, MultipointZ>(&mut reader, &ops, &mut o, true),
            31 => run_pair_ops_as::<_, _, Multipatch>(&mut reader, &ops, &mut o, true),
            _ => o.push(-1),
        }
        o
    }));
    Ok(rr.unwrap_or_else(|_| vec![2]))
}

fn run_case(v: &[W]) -> Vec<W> {
    let mut c = Cur::new(v);
    let r = match c.next() {
        Ok(K_TABLE) => case_table(&mut c),
        Ok(K_CTOR) => case_ctor(&mut c),
        Ok(K_ENC) => case_enc(&mut c),
        Ok(K_WHIST) => case_whist(&mut c),
        Ok(K_READ) => case_read(&mut c),
        Ok(K_CONV) => case_conv(&mut c),
        Ok(K_ALLOC) => case_alloc(&mut c),
        Ok(K_PAIR) => case_pair(&mut c),
        Ok(K_COPY) => case_copy(&mut c),
        Ok(K_PAIR_ALLOC) => case_pair_alloc(&mut c),
        Ok(K_PATH) => case_path(&mut c),
        Ok(K_PAIR_FILE) => case_pair_file(&mut c),
        _ => Err(BadCase),
    };
    match r {
        Ok(out) => out,
        Err(BadCase) => vec![-1],
    }
}

/// Exhaustive sweep of `ShapeType::from` over an i32 interval [lo, hi]: prints
/// one line per code that decodes (same rendering as the table case) and a
/// final line `count <n> <first> <last>` with the number of codes tried.
fn sweep(lo: i64, hi: i64) {
    let stdout = std::io::stdout();
    let mut o = stdout.lock();
    let mut n: u64 = 0;
    let mut c = lo;
    while c <= hi {
        if let Some(t) = ShapeType::from(c as i32) {
            let mut out: Vec<W> = vec![
                c as W,
                t as i32 as W,
                t.has_z() as W,
                t.has_m() as W,
                t.is_multipart() as W,
            ];
            out.extend(t.to_string().bytes().map(|b| b as W));
            let s: Vec<String> = out.iter().map(|x| x.to_string()).collect();
            writeln!(o, "{}", s.join(" ")).unwrap();
        }
        n += 1;
        c += 1;
    }
    writeln!(o, "count {} {} {}", n, lo, hi).unwrap();
}

fn print_items<S: Into<Shape>>(r: Result<Vec<S>, Error>) {
    let mut out: Vec<W> = vec![];
    match r {
        Ok(v) => {
            out.push(v.len() as W);
            for s in v {
                out.push(0);
                render_shape(&s.into(), &mut out);
            }
        }
        Err(e) => {
            out.push(-1);
            render_error(&e, &mut out);
        }
    }
    let s: Vec<String> = out.iter().map(|x| x.to_string()).collect();
    println!("{}", s.join(" "));
}

macro_rules! typed_path_read {
    ($path:expr, $first:expr) => {
        match $first {
            Shape::Point(_) => print_items(shapefile::read_shapes_as::<_, Point>($path)),
            Shape::PointM(_) => print_items(shapefile::read_shapes_as::<_, PointM>($path)),
            Shape::PointZ(_) => print_items(shapefile::read_shapes_as::<_, PointZ>($path)),
            Shape::Polyline(_) => print_items(shapefile::read_shapes_as::<_, Polyline>($path)),
            Shape::PolylineM(_) => print_items(shapefile::read_shapes_as::<_, PolylineM>($path)),
            Shape::PolylineZ(_) => print_items(shapefile::read_shapes_as::<_, PolylineZ>($path)),
            Shape::Polygon(_) => print_items(shapefile::read_shapes_as::<_, Polygon>($path)),
            Shape::PolygonM(_) => print_items(shapefile::read_shapes_as::<_, PolygonM>($path)),
            Shape::PolygonZ(_) => print_items(shapefile::read_shapes_as::<_, PolygonZ>($path)),
            Shape::Multipoint(_) => print_items(shapefile::read_shapes_as::<_, Multipoint>($path)),
            Shape::MultipointM(_) => print_items(shapefile::read_shapes_as::<_, MultipointM>($path)),
            Shape::MultipointZ(_) => print_items(shapefile::read_shapes_as::<_, MultipointZ>($path)),
            Shape::Multipatch(_) => print_items(shapefile::read_shapes_as::<_, Multipatch>($path)),
            Shape::NullShape => println!("-1"),
        }
    };
}

/// Files on disk opened by path: the shapes of one writer history (read from
/// stdin, kind-4 format without the kind) are written with
/// `ShapeWriter::from_path`, then read back with `read_shapes` (index present),
/// `read_shapes_as::<T>` and, after removing the .shx, `ShapeReader::from_path`.
fn path_mode(path: &str, keep: bool) {
    let mut line = String::new();
    std::io::stdin().read_line(&mut line).unwrap();
    let v: Vec<W> = line.split_ascii_whitespace().map(|t| t.parse::<W>().unwrap()).collect();
    let mut c = Cur::new(&v);
    for _ in 0..5 {
        c.next().unwrap();
    }
    let n = c.n().unwrap();
    let mut shapes = vec![];
    for _ in 0..n {
        assert_eq!(c.next().unwrap(), 1);
        shapes.push(build(read_ctor(&mut c).unwrap()).expect("constructor"));
    }
    {
        let mut w = ShapeWriter::from_path(path).expect("create");
        for s in &shapes {
            with_concrete!(s, x => w.write_shape(x), unreachable!()).expect("write");
        }
    }
    if keep {
        // the caller compares the files on disk with the in-memory destinations' bytes
        return;
    }
    print_items(shapefile::read_shapes(path));
    typed_path_read!(path, &shapes[0]);
    std::fs::remove_file(std::path::Path::new(path).with_extension("shx")).unwrap();
    print_items(ShapeReader::from_path(path).and_then(|r| r.read()));
    std::fs::remove_file(path).unwrap();
}

/// `runner pathpair <dir>`: two shapefiles with attribute tables whose names share their first part
/// (`roads.north.shp`, `roads.south.shp`) are written side by side with `Writer::from_path`, then the first is
/// read back with `Reader::from_path` and with `shapefile::read`: for each, one line
/// `n (x of the shape, row id)*` or `-1`.
fn pathpair_mode(dir: &str) {
    use std::convert::TryInto;
    let write = |name: &str, n: usize, x0: f64| {
        let p = std::path::Path::new(dir).join(name);
        let tb = dbase::TableWriterBuilder::new().add_numeric_field("idx".try_into().unwrap(), 10, 0);
        let mut w = Writer::from_path(&p, tb).expect("create");
        for i in 0..n {
            let mut rec = dbase::Record::default();
            rec.insert("idx".to_string(), dbase::FieldValue::Numeric(Some(100.0 * x0 + i as f64)));
            w.write_shape_and_record(&Point::new(x0 + i as f64, 1.0), &rec).expect("write");
        }
    };
    write("roads.north.shp", 5, 10.0);
    write("roads.south.shp", 3, 20.0);
    let p = std::path::Path::new(dir).join("roads.north.shp");
    let show = |r: Result<Vec<(Shape, dbase::Record)>, Error>| match r {
        Ok(v) => {
            let mut out = vec![v.len() as i64];
            for (s, rec) in v {
                out.push(match s { Shape::Point(q) => q.x as i64, _ => -7 });
                out.push(match rec.get("idx") { Some(dbase::FieldValue::Numeric(Some(x))) => *x as i64, _ => -1 });
            }
            let t: Vec<String> = out.iter().map(|x| x.to_string()).collect();
            println!("{}", t.join(" "));
        }
        Err(_) => println!("-1"),
    };
    show(Reader::from_path(&p).and_then(|mut r| r.read()));
    show(shapefile::read(&p));
    for f in ["shp", "shx", "dbf"] {
        let _ = std::fs::metadata(std::path::Path::new(dir).join(format!("roads.north.{}", f))).map(|m| println!("{} {}", f, m.len()));
    }
}

/// `runner pathread <path> <type code | -1>`: the files at <path> (put there by the driver: any bytes, with or
/// without a .shx beside them) read through the path-based one-liners: `read_shapes` (generic),
/// `read_shapes_as::<T>` for the given type code, `ShapeReader::from_path(path)?.read()`; one line each.
fn pathread_mode(path: &str, req: W) {
    print_items(shapefile::read_shapes(path));
    match req {
        1 => print_items(shapefile::read_shapes_as::<_, Point>(path)),
        21 => print_items(shapefile::read_shapes_as::<_, PointM>(path)),
        11 => print_items(shapefile::read_shapes_as::<_, PointZ>(path)),
        3 => print_items(shapefile::read_shapes_as::<_, Polyline>(path)),
        23 => print_items(shapefile::read_shapes_as::<_, PolylineM>(path)),
        13 => print_items(shapefile::read_shapes_as::<_, PolylineZ>(path)),
        5 => print_items(shapefile::read_shapes_as::<_, Polygon>(path)),
        25 => print_items(shapefile::read_shapes_as::<_, PolygonM>(path)),
        15 => print_items(shapefile::read_shapes_as::<_, PolygonZ>(path)),
        8 => print_items(shapefile::read_shapes_as::<_, Multipoint>(path)),
        28 => print_items(shapefile::read_shapes_as::<_, MultipointM>(path)),
        18 => print_items(shapefile::read_shapes_as::<_, MultipointZ>(path)),
        31 => print_items(shapefile::read_shapes_as::<_, Multipatch>(path)),
        _ => println!("-2"),
    }
    print_items(ShapeReader::from_path(path).and_then(|r| r.read()));
}

static CASE_COUNTER: std::sync::atomic::AtomicU64 = std::sync::atomic::AtomicU64::new(0);

/// Aborts the process when one case runs for more than 30 s (a hang is then
/// reported by the driver as a dead harness on that case).
fn watchdog() {
    std::thread::spawn(|| {
        use std::sync::atomic::Ordering;
        let mut last = CASE_COUNTER.load(Ordering::Relaxed);
        let mut since = std::time::Instant::now();
        loop {
            std::thread::sleep(std::time::Duration::from_millis(200));
            let cur = CASE_COUNTER.load(Ordering::Relaxed);
            if cur != last {
                last = cur;
                since = std::time::Instant::now();
            } else if cur % 2 == 1 && since.elapsed().as_secs() >= 30 {
                std::process::abort();
            }
        }
    });
}

fn main() {
    std::panic::set_hook(Box::new(|_| {}));
    watchdog();
    let args: Vec<String> = std::env::args().collect();
    if args.len() == 3 && args[1] == "path" {
        path_mode(&args[2], false);
        return;
    }
    if args.len() == 4 && args[1] == "path" && args[3] == "keep" {
        path_mode(&args[2], true);
        return;
    }
    if args.len() == 4 && args[1] == "pathread" {
        pathread_mode(&args[2], args[3].parse().unwrap());
        return;
    }
    if args.len() == 3 && args[1] == "pathpair" {
        pathpair_mode(&args[2]);
        return;
    }
    if args.len() == 4 && args[1] == "sweep" {
        sweep(args[2].parse().unwrap(), args[3].parse().unwrap());
        return;
    }
    let stdin = std::io::stdin();
    let stdout = std::io::stdout();
    let mut o = std::io::BufWriter::new(stdout.lock());
    for line in stdin.lock().lines() {
        let line = line.unwrap();
        if line.trim().is_empty() {
            continue;
        }
        let v: Vec<W> = line
            .split_ascii_whitespace()
            .map(|t| t.parse::<W>().expect("integer"))
            .collect();
        CASE_COUNTER.fetch_add(1, std::sync::atomic::Ordering::Relaxed); // odd: a case is running
        let out = run_case(&v);
        CASE_COUNTER.fetch_add(1, std::sync::atomic::Ordering::Relaxed);
        let s: Vec<String> = out.iter().map(|x| x.to_string()).collect();
        writeln!(o, "{}", s.join(" ")).unwrap();
        o.flush().unwrap();
    }
    o.flush().unwrap();
    let _ = EsriShapeMarker;
}

struct EsriShapeMarker;
#[allow(dead_code)]
fn _uses<S: EsriShape>(_s: &S) {}
