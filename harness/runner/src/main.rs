//! Correspondence harness: runs the real shapefile library on cases read from
//! stdin (one list of integers per line) and prints one canonical result line
//! per case.  Built on every check run against /repo's current working tree.
mod wire;

use shapefile::record::{EsriShape, WritableShape};
use shapefile::*;
use std::io::{BufRead, Write};
use wire::*;

/// A Write sink that records the length of every `write` call.
#[derive(Default)]
struct ChunkLog {
    buf: Vec<u8>,
    chunks: Vec<usize>,
}
impl Write for ChunkLog {
    fn write(&mut self, b: &[u8]) -> std::io::Result<usize> {
        self.buf.extend_from_slice(b);
        self.chunks.push(b.len());
        Ok(b.len())
    }
    fn flush(&mut self) -> std::io::Result<()> {
        Ok(())
    }
}

macro_rules! with_concrete {
    ($shape:expr, $s:ident => $body:expr, $null:expr) => {
        match $shape {
            Shape::NullShape => $null,
            Shape::Point($s) => $body,
            Shape::PointM($s) => $body,
            Shape::PointZ($s) => $body,
            Shape::Polyline($s) => $body,
            Shape::PolylineM($s) => $body,
            Shape::PolylineZ($s) => $body,
            Shape::Polygon($s) => $body,
            Shape::PolygonM($s) => $body,
            Shape::PolygonZ($s) => $body,
            Shape::Multipoint($s) => $body,
            Shape::MultipointM($s) => $body,
            Shape::MultipointZ($s) => $body,
            Shape::Multipatch($s) => $body,
        }
    };
}

const K_TABLE: W = 1;
const K_CTOR: W = 2;
const K_ENC: W = 3;

fn case_table(c: &mut Cur) -> Result<Vec<W>, BadCase> {
    let code = c.next()?;
    if code < i32::MIN as W || code > i32::MAX as W {
        return Err(BadCase);
    }
    let mut out = vec![];
    match ShapeType::from(code as i32) {
        None => out.push(0),
        Some(t) => {
            out.extend([
                1,
                t as i32 as W,
                t.has_z() as W,
                t.has_m() as W,
                t.is_multipart() as W,
            ]);
            out.extend(t.to_string().bytes().map(|b| b as W));
        }
    }
    Ok(out)
}

fn case_ctor(c: &mut Cur) -> Result<Vec<W>, BadCase> {
    let ctor = read_ctor(c)?;
    let mut out = vec![];
    match build(ctor) {
        Ok(s) => {
            out.push(0);
            render_shape(&s, &mut out);
        }
        Err(()) => out.push(2),
    }
    Ok(out)
}

fn case_enc(c: &mut Cur) -> Result<Vec<W>, BadCase> {
    let ctor = read_ctor(c)?;
    let mut out = vec![];
    match build(ctor) {
        Ok(s) => {
            let r = std::panic::catch_unwind(|| {
                let mut log = ChunkLog::default();
                let size: usize = with_concrete!(&s, x => {
                    x.write_to(&mut log).expect("write to memory");
                    x.size_in_bytes()
                }, 0);
                (size, log)
            });
            match r {
                Ok((size, log)) => {
                    out.push(0);
                    out.push(size as W);
                    out.push(log.chunks.len() as W);
                    out.extend(log.chunks.iter().map(|&l| l as W));
                    render_bytes(&log.buf, &mut out);
                }
                Err(_) => out.push(2),
            }
        }
        Err(()) => out.push(2),
    }
    Ok(out)
}

fn run_case(v: &[W]) -> Vec<W> {
    let mut c = Cur::new(v);
    let r = match c.next() {
        Ok(K_TABLE) => case_table(&mut c),
        Ok(K_CTOR) => case_ctor(&mut c),
        Ok(K_ENC) => case_enc(&mut c),
        _ => Err(BadCase),
    };
    match r {
        Ok(out) => out,
        Err(BadCase) => vec![-1],
    }
}

/// Exhaustive sweep of `ShapeType::from` over an i32 interval [lo, hi]: prints
/// one line per code that decodes (same rendering as the table case) and a
/// final line `count <n> <first> <last>` with the number of codes tried.
fn sweep(lo: i64, hi: i64) {
    let stdout = std::io::stdout();
    let mut o = stdout.lock();
    let mut n: u64 = 0;
    let mut c = lo;
    while c <= hi {
        if let Some(t) = ShapeType::from(c as i32) {
            let mut out: Vec<W> = vec![
                c as W,
                t as i32 as W,
                t.has_z() as W,
                t.has_m() as W,
                t.is_multipart() as W,
            ];
            out.extend(t.to_string().bytes().map(|b| b as W));
            let s: Vec<String> = out.iter().map(|x| x.to_string()).collect();
            writeln!(o, "{}", s.join(" ")).unwrap();
        }
        n += 1;
        c += 1;
    }
    writeln!(o, "count {} {} {}", n, lo, hi).unwrap();
}

fn main() {
    std::panic::set_hook(Box::new(|_| {}));
    let args: Vec<String> = std::env::args().collect();
    if args.len() == 4 && args[1] == "sweep" {
        sweep(args[2].parse().unwrap(), args[3].parse().unwrap());
        return;
    }
    let stdin = std::io::stdin();
    let stdout = std::io::stdout();
    let mut o = std::io::BufWriter::new(stdout.lock());
    for line in stdin.lock().lines() {
        let line = line.unwrap();
        if line.trim().is_empty() {
            continue;
        }
        let v: Vec<W> = line
            .split_ascii_whitespace()
            .map(|t| t.parse::<W>().expect("integer"))
            .collect();
        let out = run_case(&v);
        let s: Vec<String> = out.iter().map(|x| x.to_string()).collect();
        writeln!(o, "{}", s.join(" ")).unwrap();
    }
    o.flush().unwrap();
    let _ = EsriShapeMarker;
}

struct EsriShapeMarker;
#[allow(dead_code)]
fn _uses<S: EsriShape>(_s: &S) {}
