//! Instrumented in-memory devices: a destination (`Write + Seek`) that logs
//! every operation and can fail the k-th one, and a source (`Read + Seek`)
//! that counts operations, can fail the k-th one and can return short reads.
use std::cell::RefCell;
use std::io::{self, Read, Seek, SeekFrom, Write};
use std::rc::Rc;

#[derive(Clone, Debug)]
pub enum Op {
    Write(Vec<u8>),
    SeekStart(u64),
    SeekEnd,
    Flush,
}

#[derive(Default)]
pub struct DevState {
    pub buf: Vec<u8>,
    pub pos: u64,
    pub ops: usize,
    pub fault: Option<(usize, bool)>,
    pub flushed: bool,
    pub log: Vec<Op>,
    /// accept at most chunk[i] bytes on the i-th raw write call (empty: everything)
    pub chunks: Vec<usize>,
    pub raw_writes: usize,
}

pub fn injected() -> io::Error {
    io::Error::new(io::ErrorKind::Other, "injected")
}

impl DevState {
    fn faulty(&self) -> bool {
        match self.fault {
            None => false,
            Some((k, true)) => k <= self.ops,
            Some((k, false)) => k == self.ops,
        }
    }
    /// Accounts for one operation; Err if it is the one that fails.
    fn op(&mut self) -> io::Result<()> {
        let f = self.faulty();
        self.ops += 1;
        if f {
            self.flushed = false;
            Err(injected())
        } else {
            Ok(())
        }
    }
}

/// Destination shared between the writer (which owns a handle) and the harness.
#[derive(Clone, Default)]
pub struct Dest(pub Rc<RefCell<DevState>>);

impl Write for Dest {
    fn write(&mut self, b: &[u8]) -> io::Result<usize> {
        let mut d = self.0.borrow_mut();
        let n = if d.chunks.is_empty() {
            d.op()?;
            b.len()
        } else {
            // short writes: chunked raw writes are not counted as operations
            let i = d.raw_writes;
            d.raw_writes += 1;
            let c = if i < d.chunks.len() { d.chunks[i].max(1) } else { b.len() };
            c.min(b.len())
        };
        let pos = d.pos as usize;
        if d.buf.len() < pos {
            d.buf.resize(pos, 0);
        }
        let end = pos + n;
        if d.buf.len() < end {
            d.buf.resize(end, 0);
        }
        d.buf[pos..end].copy_from_slice(&b[..n]);
        d.pos = end as u64;
        d.flushed = false;
        if d.chunks.is_empty() {
            d.log.push(Op::Write(b.to_vec()));
        }
        Ok(n)
    }
    fn flush(&mut self) -> io::Result<()> {
        let mut d = self.0.borrow_mut();
        if d.chunks.is_empty() {
            d.op()?;
        }
        d.flushed = true;
        d.log.push(Op::Flush);
        Ok(())
    }
}

impl Seek for Dest {
    fn seek(&mut self, s: SeekFrom) -> io::Result<u64> {
        let mut d = self.0.borrow_mut();
        if d.chunks.is_empty() {
            d.op()?;
        }
        d.flushed = false;
        match s {
            SeekFrom::Start(p) => {
                d.pos = p;
                d.log.push(Op::SeekStart(p));
            }
            SeekFrom::End(0) => {
                d.pos = d.buf.len() as u64;
                d.log.push(Op::SeekEnd);
            }
            other => panic!("harness: unexpected seek {:?}", other),
        }
        Ok(d.pos)
    }
}

/// Source over a byte vector.
pub struct Source {
    pub data: Vec<u8>,
    pub pos: u64,
    pub ops: usize,
    pub fault: Option<(usize, bool)>,
    /// at most sched[i mod len] bytes on the i-th raw read (empty: no short reads)
    pub sched: Vec<usize>,
    pub raw_reads: usize,
}

impl Source {
    pub fn new(data: Vec<u8>) -> Self {
        Source { data, pos: 0, ops: 0, fault: None, sched: vec![], raw_reads: 0 }
    }
    fn op(&mut self) -> io::Result<()> {
        let f = match self.fault {
            None => false,
            Some((k, true)) => k <= self.ops,
            Some((k, false)) => k == self.ops,
        };
        self.ops += 1;
        if f {
            Err(injected())
        } else {
            Ok(())
        }
    }
    fn rest(&self) -> &[u8] {
        let p = (self.pos as usize).min(self.data.len());
        &self.data[p..]
    }
}

impl Read for Source {
    fn read(&mut self, b: &mut [u8]) -> io::Result<usize> {
        let i = self.raw_reads;
        self.raw_reads += 1;
        // the schedule repeats: every raw read is short
        let c = if self.sched.is_empty() { b.len() } else { self.sched[i % self.sched.len()].max(1) };
        let n = c.min(b.len()).min(self.rest().len());
        let p = (self.pos as usize).min(self.data.len());
        b[..n].copy_from_slice(&self.data[p..p + n]);
        self.pos = (p + n) as u64;
        Ok(n)
    }

    fn read_exact(&mut self, b: &mut [u8]) -> io::Result<()> {
        if self.sched.is_empty() {
            // one operation per read_exact call
            self.op()?;
            if b.len() <= self.rest().len() {
                let p = self.pos as usize;
                b.copy_from_slice(&self.data[p..p + b.len()]);
                self.pos += b.len() as u64;
                Ok(())
            } else {
                self.pos = self.pos.max(self.data.len() as u64);
                Err(io::Error::new(io::ErrorKind::UnexpectedEof, "failed to fill whole buffer"))
            }
        } else {
            // std's default loop over raw reads
            let mut buf = b;
            while !buf.is_empty() {
                match self.read(buf) {
                    Ok(0) => break,
                    Ok(n) => buf = &mut buf[n..],
                    Err(e) => return Err(e),
                }
            }
            if !buf.is_empty() {
                Err(io::Error::new(io::ErrorKind::UnexpectedEof, "failed to fill whole buffer"))
            } else {
                Ok(())
            }
        }
    }
}

impl Seek for Source {
    fn seek(&mut self, s: SeekFrom) -> io::Result<u64> {
        if self.sched.is_empty() {
            self.op()?;
        }
        match s {
            SeekFrom::Start(p) => self.pos = p,
            SeekFrom::End(0) => self.pos = self.data.len() as u64,
            other => panic!("harness: unexpected seek {:?}", other),
        }
        Ok(self.pos)
    }
}
