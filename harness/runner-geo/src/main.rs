//! Correspondence harness for the optional geo-types / geo-traits conversions
//! (C20 only; separate crate so that optional code that stops compiling cannot
//! take the other checks down).  Cases and results are lists of integers.
#[path = "../../runner/src/wire.rs"]
#[allow(dead_code)]
mod wire;

use geo_types::{Coord, Geometry, LineString};
use shapefile::*;
use std::convert::TryFrom;
use std::io::{BufRead, Write};
use wire::*;

fn read_coord(c: &mut Cur) -> Result<Coord<f64>, BadCase> {
    Ok(Coord { x: c.f()?, y: c.f()? })
}
fn read_coords(c: &mut Cur) -> Result<Vec<Coord<f64>>, BadCase> {
    let n = c.n()?;
    (0..n).map(|_| read_coord(c)).collect()
}
fn read_polygon(c: &mut Cur) -> Result<geo_types::Polygon<f64>, BadCase> {
    let ext = read_coords(c)?;
    let k = c.n()?;
    let mut ints = vec![];
    for _ in 0..k {
        ints.push(LineString::from(read_coords(c)?));
    }
    Ok(geo_types::Polygon::new(LineString::from(ext), ints))
}

fn read_geo(c: &mut Cur) -> Result<Geometry<f64>, BadCase> {
    Ok(match c.next()? {
        1 => Geometry::Point(geo_types::Point(read_coord(c)?)),
        2 => Geometry::Line(geo_types::Line::new(read_coord(c)?, read_coord(c)?)),
        3 => Geometry::LineString(LineString::from(read_coords(c)?)),
        4 => Geometry::Polygon(read_polygon(c)?),
        5 => Geometry::MultiPoint(geo_types::MultiPoint(read_coords(c)?.into_iter().map(geo_types::Point).collect())),
        6 => {
            let k = c.n()?;
            let mut ls = vec![];
            for _ in 0..k {
                ls.push(LineString::from(read_coords(c)?));
            }
            Geometry::MultiLineString(geo_types::MultiLineString(ls))
        }
        7 => {
            let k = c.n()?;
            let mut ps = vec![];
            for _ in 0..k {
                ps.push(read_polygon(c)?);
            }
            Geometry::MultiPolygon(geo_types::MultiPolygon(ps))
        }
        8 => Geometry::GeometryCollection(geo_types::GeometryCollection(vec![])),
        9 => Geometry::Rect(geo_types::Rect::new(read_coord(c)?, read_coord(c)?)),
        10 => Geometry::Triangle(geo_types::Triangle::new(read_coord(c)?, read_coord(c)?, read_coord(c)?)),
        _ => return Err(BadCase),
    })
}

fn render_coords(cs: &[Coord<f64>], out: &mut Vec<W>) {
    out.push(cs.len() as W);
    for c in cs {
        out.push(fb(c.x));
        out.push(fb(c.y));
    }
}
fn render_polygon(p: &geo_types::Polygon<f64>, out: &mut Vec<W>) {
    render_coords(&p.exterior().0, out);
    out.push(p.interiors().len() as W);
    for i in p.interiors() {
        render_coords(&i.0, out);
    }
}
fn render_geo(g: &Geometry<f64>, out: &mut Vec<W>) {
    match g {
        Geometry::Point(p) => out.extend([1, fb(p.x()), fb(p.y())]),
        Geometry::Line(l) => out.extend([2, fb(l.start.x), fb(l.start.y), fb(l.end.x), fb(l.end.y)]),
        Geometry::LineString(l) => {
            out.push(3);
            render_coords(&l.0, out)
        }
        Geometry::Polygon(p) => {
            out.push(4);
            render_polygon(p, out)
        }
        Geometry::MultiPoint(m) => {
            out.push(5);
            out.push(m.0.len() as W);
            for p in &m.0 {
                out.extend([fb(p.x()), fb(p.y())]);
            }
        }
        Geometry::MultiLineString(m) => {
            out.push(6);
            out.push(m.0.len() as W);
            for l in &m.0 {
                render_coords(&l.0, out);
            }
        }
        Geometry::MultiPolygon(m) => {
            out.push(7);
            out.push(m.0.len() as W);
            for p in &m.0 {
                render_polygon(p, out);
            }
        }
        _ => out.push(99),
    }
}

/// [1; ctor spec] -> Geometry::try_from(shape), then Shape::try_from(that geometry)
fn case_to(c: &mut Cur) -> Result<Vec<W>, BadCase> {
    let ctor = read_ctor(c)?;
    let s = match build(ctor) {
        Ok(s) => s,
        Err(()) => return Ok(vec![-3]),
    };
    let r = std::panic::catch_unwind(std::panic::AssertUnwindSafe(move || {
        let mut out = vec![];
        match Geometry::<f64>::try_from(s) {
            Err(_) => out.push(1),
            Ok(g) => {
                out.push(0);
                render_geo(&g, &mut out);
                match std::panic::catch_unwind(std::panic::AssertUnwindSafe(|| Shape::try_from(g))) {
                    Err(_) => out.push(2),
                    Ok(Err(_)) => out.push(1),
                    Ok(Ok(s2)) => {
                        out.push(0);
                        render_shape(&s2, &mut out);
                    }
                }
            }
        }
        out
    }));
    Ok(r.unwrap_or_else(|_| vec![2]))
}

/// [13; shp bytes] -> the shapes of the file as the generic reader returns them (also shapes no constructor
/// builds: parts of one or no point, no part at all), each converted with Geometry::try_from:
/// [0, n, per shape (1 | 0 geometry)] | [1] when the file cannot be read
fn case_to_from_file(c: &mut Cur) -> Result<Vec<W>, BadCase> {
    let bytes = read_bytes(c)?;
    let r = std::panic::catch_unwind(std::panic::AssertUnwindSafe(move || {
        let mut out = vec![];
        let shapes = match ShapeReader::new(std::io::Cursor::new(bytes)).and_then(|r| r.read()) {
            Ok(v) => v,
            Err(_) => return vec![1],
        };
        out.extend([0, shapes.len() as W]);
        for s in shapes {
            match Geometry::<f64>::try_from(s) {
                Err(_) => out.push(1),
                Ok(g) => {
                    out.push(0);
                    render_geo(&g, &mut out);
                }
            }
        }
        out
    }));
    Ok(r.unwrap_or_else(|_| vec![2]))
}

/// [2; geometry] -> Shape::try_from(geometry), then Geometry::try_from(that shape)
fn case_from(c: &mut Cur) -> Result<Vec<W>, BadCase> {
    let g = read_geo(c)?;
    let r = std::panic::catch_unwind(std::panic::AssertUnwindSafe(move || {
        let mut out = vec![];
        match Shape::try_from(g) {
            Err(_) => out.push(1),
            Ok(s) => {
                out.push(0);
                render_shape(&s, &mut out);
                match Geometry::<f64>::try_from(s) {
                    Err(_) => out.push(1),
                    Ok(g2) => {
                        out.push(0);
                        render_geo(&g2, &mut out);
                    }
                }
            }
        }
        out
    }));
    Ok(r.unwrap_or_else(|_| vec![2]))
}

fn dims_of<C: geo_traits::CoordTrait<T = f64>>(p: C, out: &mut Vec<W>) {
    let n = p.dim().size();
    out.push(n as W);
    for i in 0..n {
        match std::panic::catch_unwind(std::panic::AssertUnwindSafe(|| p.nth_or_panic(i))) {
            Ok(v) => out.extend([0, fb(v)]),
            Err(_) => out.push(2),
        }
    }
}

/// The other accessors of the same coordinates (checked `nth`, `nth_unchecked`, `x`, `y`, `x_y`) and the other views
/// (by reference, through `PointTrait::coord`) must agree with `nth_or_panic` of the value: any disagreement is
/// appended as `-9 view index` (nothing is appended when all agree).
fn agree<C: geo_traits::CoordTrait<T = f64>>(view: W, q: C, n: usize, first: &[W], out: &mut Vec<W>) {
    let r = std::panic::catch_unwind(std::panic::AssertUnwindSafe(|| {
        let mut bad = vec![];
        if q.dim().size() != n {
            bad.extend([-9, view, -1]);
        }
        for i in 0..n {
            let want = first.get(2 * i + 1).copied();
            if first.get(2 * i) != Some(&0) {
                continue;
            }
            let a = fb(q.nth_or_panic(i));
            let b = q.nth(i).map(fb);
            let c = fb(unsafe { q.nth_unchecked(i) });
            if Some(a) != want || b != want || Some(c) != want {
                bad.extend([-9, view, i as W]);
            }
        }
        if n >= 2 && first.get(0) == Some(&0) && first.get(2) == Some(&0) {
            let (x, y) = q.x_y();
            if Some(&fb(q.x())) != first.get(1) || Some(&fb(q.y())) != first.get(3) || Some(&fb(x)) != first.get(1) || Some(&fb(y)) != first.get(3) {
                bad.extend([-9, view, -2]);
            }
        }
        if q.nth(n).is_some() {
            bad.extend([-9, view, n as W]);
        }
        bad
    }));
    match r {
        Ok(b) => out.extend(b),
        Err(_) => out.extend([-9, view, -3]),
    }
}

macro_rules! all_views {
    ($p:expr, $out:expr) => {{
        let p = $p;
        dims_of(p, $out);
        let n = $out[0] as usize;
        let first: Vec<W> = $out[1..].to_vec();
        agree(1, p, n, &first, $out);
        agree(2, &p, n, &first, $out);
        if let Some(c) = geo_traits::PointTrait::coord(&p) {
            agree(3, c, n, &first, $out);
        } else {
            $out.extend([-9, 3, -4]);
        }
        if let Some(c) = geo_traits::PointTrait::coord(&&p) {
            agree(4, c, n, &first, $out);
        } else {
            $out.extend([-9, 4, -4]);
        }
        if geo_traits::PointTrait::dim(&p).size() != n || geo_traits::PointTrait::dim(&&p).size() != n {
            $out.extend([-9, 5, -1]);
        }
    }};
}

/// [3; point type code; coordinates] -> dimension count and every coordinate below it through the geo-traits view
fn case_dims(c: &mut Cur) -> Result<Vec<W>, BadCase> {
    let mut out = vec![];
    match c.next()? {
        1 => all_views!(Point::new(c.f()?, c.f()?), &mut out),
        21 => all_views!(PointM::new(c.f()?, c.f()?, c.f()?), &mut out),
        11 => all_views!(PointZ::new(c.f()?, c.f()?, c.f()?, c.f()?), &mut out),
        _ => return Err(BadCase),
    }
    Ok(out)
}

fn main() {
    std::panic::set_hook(Box::new(|_| {}));
    let stdin = std::io::stdin();
    let stdout = std::io::stdout();
    let mut o = std::io::BufWriter::new(stdout.lock());
    for line in stdin.lock().lines() {
        let line = line.unwrap();
        if line.trim().is_empty() {
            continue;
        }
        let v: Vec<W> = line.split_ascii_whitespace().map(|t| t.parse::<W>().expect("integer")).collect();
        let mut c = Cur::new(&v);
        let r = match c.next() {
            Ok(10) => case_to(&mut c),
            Ok(11) => case_from(&mut c),
            Ok(13) => case_to_from_file(&mut c),
            Ok(12) => case_dims(&mut c),
            _ => Err(BadCase),
        };
        let out = match r {
            Ok(x) => x,
            Err(BadCase) => vec![-1],
        };
        let s: Vec<String> = out.iter().map(|x| x.to_string()).collect();
        writeln!(o, "{}", s.join(" ")).unwrap();
    }
    o.flush().unwrap();
}
